------------------------------- MODULE KeepaliveDefs -------------------------------
(* definitions shared by the keep-alive model (Keepalive.tla) and the validation of real-time runs (TraceTimers.tla) *)
EXTENDS Naturals
Delay(p) == IF p = "late1" THEN 1 ELSE IF p = "late2" THEN 2 ELSE 0
(* the expected time of disconnection for the real-time runs (0 = never within the horizon) *)
ExpectedDrop(pg, po, p) ==
    CASE p \in {"never", "capnever"} -> pg + po
      [] p = "stops1" -> 2 * pg + po
      [] p = "stops2" -> 3 * pg + po
      [] OTHER -> 0
=============================================================================
