------------------------------- MODULE MC_Msg -------------------------------
(* C01, C10 (also C12's "cannot speak into it"): PRIVMSG / NOTICE with every target form, from *)
(* members of every standing and from an outsider, in EVERY COMBINATION of +n +m +s, voice and   *)
(* higher ranks, ban and exception masks relative to the senders, an away recipient, a renamed   *)
(* recipient and a departed member (the combinations are the initial states)                     *)
EXTENDS IrcModel
A == "127.0.0.1"
B == "127.0.0.2"
C == "127.0.0.3"
D == "127.0.0.4"
Cfg == BaseCfg
Pre == Reg(A, "alice", "u1") \o Reg(B, "bob", "u2") \o Reg(C, "carol", "u3") \o Reg(D, "dave", "u4")
       \o << St(A, "JOIN", <<<<"#one">>>>), St(B, "JOIN", <<<<"#one">>>>), St(D, "JOIN", <<<<"#one">>>>) >>
M(c, grp) == St(c, "MODE", <<<<"#one">>, grp>>)
Toggles == << M(A, <<"+n">>), M(A, <<"+m">>), M(A, <<"+s">>),
              M(A, <<"+v", "bob">>), M(A, <<"+o", "dave">>),
              M(A, <<"+b", "dave">>), M(A, <<"+b", "*!*@127.0.0.2">>), M(A, <<"+e", "bob!*@*">>),
              St(B, "AWAY", <<<<"gone: fishing">>>>) >>
Later == { St(B, "NICK", <<<<"bobby">>>>), St(A, "KICK", <<<<"#one">>, <<"bob">>>>), St(B, "QUIT", <<>>), M(A, <<"+a", "bob">>), M(A, <<"+h", "bob">>),
           St(D, "PART", <<<<"#one">>>>) }
Targets == { <<"#one">>, <<"@#one">>, <<"+#one">>, <<"~@#one">>, <<"%+#one">>, <<"bob">>, <<"bobby">>, <<"alice">>,
             <<"nobody">>, <<"#one", "bob", "#one">>, <<"#none">>, <<"dave", "@#one", "#none">>, <<"bob", "#one", "bob">> }
NTargets == { <<"#one">>, <<"@#one">>, <<"bob">>, <<"nobody">>, <<"#none">> }
Msgs == { St(c, "PRIVMSG", <<t, <<"hi: there">>>>) : c \in {A, B, C, D}, t \in Targets }
        \cup { St(c, "NOTICE", <<t, <<"hi: there">>>>) : c \in {A, B, C, D}, t \in NTargets }
(* a text that fills the input line to just under the 2000-byte limit: the relayed line (with the sender's prefix) is longer *)
(* than any line the server accepts, and must still arrive whole                                                            *)
T10 == "long text "
T20 == T10 \o T10
T40 == T20 \o T20
T80 == T40 \o T40
T160 == T80 \o T80
T320 == T160 \o T160
T640 == T320 \o T320
T1280 == T640 \o T640
LongText == T1280 \o T640 \o T40 \o "the end."        \* 1968 characters: with "PRIVMSG bob :" a line of 1981 bytes
LongMsgs == { St(D, "PRIVMSG", <<<<"bob">>, <<LongText>>>>), St(A, "NOTICE", <<<<"#one">>, <<LongText>>>>) }
(* membership and nick changes before the send only from the untoggled start state *)
Enabled(st) == st.c \in DOMAIN S.conns /\ (st \in Later => hist = Pre)
Steps == {st \in Later \cup Msgs \cup LongMsgs : Enabled(st)}
Depth == 0
DepthT == 0
Init == InitWithToggles(Cfg, Pre, Toggles)
Next == NextWith(Steps)
Spec == Init /\ [][Next]_vars
(* one message after the combination, or one further change and then a message *)
Constraint == Len(SelectSeq(hist, LAMBDA st : st \in Later \cup Msgs \cup LongMsgs)) <= 2
             /\ Len(SelectSeq(hist, LAMBDA st : st \in Msgs \cup LongMsgs)) <= 1
ASSUME PrintT(<<"CFG", ToJson(CfgJson(Cfg))>>)
=============================================================================
