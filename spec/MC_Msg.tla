------------------------------- MODULE MC_Msg -------------------------------
(* C01, C10 (also C12's "cannot speak into it"): PRIVMSG / NOTICE with every target form, *)
(* from members of every standing and from an outsider, under +n +m +s, bans, exceptions,  *)
(* away recipients, after membership, rank and nick changes                                *)
EXTENDS IrcModel
A == "127.0.0.1"
B == "127.0.0.2"
C == "127.0.0.3"
D == "127.0.0.4"
Cfg == BaseCfg
Pre == Reg(A, "alice", "u1") \o Reg(B, "bob", "u2") \o Reg(C, "carol", "u3") \o Reg(D, "dave", "u4")
       \o << St(A, "JOIN", <<<<"#one">>>>), St(B, "JOIN", <<<<"#one">>>>), St(D, "JOIN", <<<<"#one">>>>) >>
M(c, grp) == St(c, "MODE", <<<<"#one">>, grp>>)
Setup ==
    { M(A, <<"+n">>), M(A, <<"+m">>), M(A, <<"+s">>), M(A, <<"-n">>),
      M(A, <<"+v", "bob">>), M(A, <<"+h", "bob">>), M(A, <<"+o", "dave">>), M(A, <<"+a", "dave">>),
      M(A, <<"+b", "dave">>), M(A, <<"+b", "*!*@127.0.0.3">>), M(A, <<"+e", "dave!*@127.0.0.4">>),
      St(B, "AWAY", <<<<"gone: fishing">>>>), St(B, "NICK", <<<<"bobby">>>>),
      St(D, "PART", <<<<"#one">>>>), St(A, "KICK", <<<<"#one">>, <<"bob">>>>), St(B, "QUIT", <<>>) }
Targets == { <<"#one">>, <<"@#one">>, <<"+#one">>, <<"~@#one">>, <<"%+#one">>, <<"bob">>, <<"bobby">>, <<"alice">>,
             <<"nobody">>, <<"#one", "bob", "#one">>, <<"#none">>, <<"dave", "@#one", "#none">> }
Msgs == { St(c, v, <<t, <<x>>>>) : c \in {A, B, C, D}, v \in {"PRIVMSG", "NOTICE"}, t \in Targets, x \in {"hi: there"} }
IsMsg(st) == st.cmd.verb \in {"PRIVMSG", "NOTICE"}
Enabled(st) == st.c \in DOMAIN S.conns
Steps == {st \in Setup \cup Msgs : Enabled(st)}
Init == InitWith(Cfg, Pre)
Next == NextWith(Steps)
Spec == Init /\ [][Next]_vars
Depth == 3
Constraint == Len(hist) <= Len(Pre) + Depth
ASSUME PrintT(<<"CFG", ToJson(CfgJson(Cfg))>>)
=============================================================================
