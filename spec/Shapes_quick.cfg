CONSTANTS
MaxArity = 2
Rich = FALSE
