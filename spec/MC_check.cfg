SPECIFICATION Spec
VIEW CheckView
INVARIANT Inv_Sym
INVARIANT Inv_Owner
INVARIANT Inv_Counters
INVARIANT Inv_Wallops
INVARIANT Inv_EmptyChan
INVARIANT Inv_C04Views
INVARIANT Inv_C16
INVARIANT Inv_WF
PROPERTY StepPropsHold
CONSTRAINT Constraint
CHECK_DEADLOCK FALSE
