SPECIFICATION Spec
VIEW ModelView
INVARIANT StateProps
PROPERTY StepPropsHold
CONSTRAINT Constraint
CHECK_DEADLOCK FALSE
