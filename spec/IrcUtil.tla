------------------------------- MODULE IrcUtil -------------------------------
(***************************************************************************)
(* Generic helpers shared by every module of the specification: options,   *)
(* partial functions keyed by strings, character-level string operations   *)
(* (TLC evaluates Len, \o and SubSeq on strings), number <-> string, and    *)
(* the REFERENCE definitions of glob matching and mask normalisation that  *)
(* property C14 is stated against and that every handler uses.             *)
(***************************************************************************)
EXTENDS Naturals, Sequences, FiniteSets, TLC, SequencesExt, FiniteSetsExt

None == <<>>
Some(x) == <<x>>
IsSome(o) == o # <<>>
IsNone(o) == o = <<>>
Val(o) == o[1]

(* partial functions (JSON objects) *)
Upd(f, k, v) == [x \in (DOMAIN f) \cup {k} |-> IF x = k THEN v ELSE f[x]]
Del(f, k) == [x \in (DOMAIN f) \ {k} |-> f[x]]
EmptyFn == <<>>

(* sequences from sets; the order is irrelevant wherever this is used      *)
(* because outputs are compared as bags                                    *)
MapSet(S, F(_)) == LET q == SetToSeq(S) IN [i \in 1..Len(q) |-> F(q[i])]
MapSeq(q, F(_)) == [i \in 1..Len(q) |-> F(q[i])]
Flat(qq) == FlattenSeq(qq)
FilterSeq(q, T(_)) == SelectSeq(q, T)

(* ---------------- strings ---------------- *)
Chr(s, i) == SubSeq(s, i, i)
Drop(s, n) == SubSeq(s, n + 1, Len(s))
Take(s, n) == SubSeq(s, 1, n)
HasChr(s, ch) == \E i \in 1..Len(s) : Chr(s, i) = ch
FirstIdx(s, ch) ==   \* 0 if absent
    IF HasChr(s, ch) THEN CHOOSE i \in 1..Len(s) : Chr(s, i) = ch /\ \A j \in 1..(i-1) : Chr(s, j) # ch
    ELSE 0

RECURSIVE JoinWith(_, _)
JoinWith(q, sep) ==
    IF Len(q) = 0 THEN ""
    ELSE IF Len(q) = 1 THEN q[1]
    ELSE q[1] \o sep \o JoinWith(Tail(q), sep)

DigitVal == ("0" :> 0) @@ ("1" :> 1) @@ ("2" :> 2) @@ ("3" :> 3) @@ ("4" :> 4) @@
            ("5" :> 5) @@ ("6" :> 6) @@ ("7" :> 7) @@ ("8" :> 8) @@ ("9" :> 9)
IsDigits(s) == Len(s) > 0 /\ \A i \in 1..Len(s) : Chr(s, i) \in DOMAIN DigitVal
RECURSIVE StrToNatAt(_, _, _)
StrToNatAt(s, i, acc) == IF i > Len(s) THEN acc ELSE StrToNatAt(s, i + 1, acc * 10 + DigitVal[Chr(s, i)])
StrToNat(s) == StrToNatAt(s, 1, 0)
NatToStr(n) == ToString(n)

(* ---------------- glob matching: the reference semantics of C14 ---------------- *)
(* the whole text must match the mask; '*' = any possibly empty run, '?' = exactly *)
(* one character, anything else itself, case-sensitively                           *)
RECURSIVE GlobAt(_, _, _, _)
GlobAt(p, t, i, j) ==
    IF i > Len(p) THEN j > Len(t)
    ELSE LET pc == Chr(p, i) IN
         IF pc = "*"
         THEN GlobAt(p, t, i + 1, j) \/ (j <= Len(t) /\ GlobAt(p, t, i, j + 1))
         ELSE j <= Len(t) /\ (pc = "?" \/ pc = Chr(t, j)) /\ GlobAt(p, t, i + 1, j + 1)
Glob(p, t) == GlobAt(p, t, 1, 1)

(* a list mask given without all three parts is completed with wildcards *)
Normalize(m) ==
    LET e == FirstIdx(m, "!") IN
    IF e > 0
    THEN IF HasChr(Drop(m, e), "@") THEN m ELSE m \o "@*"
    ELSE LET a == FirstIdx(m, "@") IN
         IF a > 0 THEN Take(m, a - 1) \o "!*" \o Drop(m, a - 1)
         ELSE m \o "!*@*"

(* ---------------- name syntax ---------------- *)
ValidUserName(s) ==
    /\ ~(Len(s) > 0 /\ Chr(s, 1) \in {"#", "&"})
    /\ ~HasChr(s, ".") /\ ~HasChr(s, ":") /\ ~HasChr(s, ",")
ValidChannel(s) ==
    /\ Len(s) > 0 /\ Chr(s, 1) \in {"#", "&"}
    /\ ~HasChr(s, ":") /\ ~HasChr(s, ",")
ValidServer(s) == HasChr(s, ".")
ValidServerMask(s) == HasChr(s, ".") \/ HasChr(s, "*")
HasWild(s) == HasChr(s, "*") \/ HasChr(s, "?")

(* bags of messages: outputs of a step are compared order-insensitively *)
BagOf(q) == [m \in ToSet(q) |-> Cardinality({i \in DOMAIN q : q[i] = m})]
=============================================================================
