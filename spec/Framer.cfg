CONSTANTS
StreamLen = 6
Limit = 4
