SPECIFICATION Spec
CONSTANTS
  NCmds = 5
  MaxForeign = 3
  DrainAfterEvent = FALSE
INVARIANT InOrder
CHECK_DEADLOCK FALSE
