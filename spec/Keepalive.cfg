SPECIFICATION Spec
CONSTANTS
MaxPing = 4
MaxPong = 5
Horizon = 24
ReplaceOnPing = FALSE
INVARIANT LiveKept
INVARIANT DeadDropped
INVARIANT DropNotEarly
INVARIANT DropOnTime
CHECK_DEADLOCK FALSE
