------------------------------- MODULE MC_Slots -------------------------------
(* C19: max_connections = 2 with four would-be clients: every pattern of opening, refusing and *)
(* closing connections, registered, half-registered or silent; every ending frees its slot      *)
EXTENDS IrcModel
Conns4 == {"127.0.0.1", "127.0.0.2", "127.0.0.3", "127.0.0.4"}
Cfg == [BaseCfg EXCEPT !.max_connections = <<2>>, !.password = <<"srvpass">>,
                       !.operators = << [name |-> "god", pass |-> "godpass", mask |-> <<>>] >>]
Pre == <<>>
Nick(c) == CASE c = "127.0.0.1" -> "alice" [] c = "127.0.0.2" -> "bob" [] c = "127.0.0.3" -> "carol" [] OTHER -> "dave"
Un(c) == CASE c = "127.0.0.1" -> "u1" [] c = "127.0.0.2" -> "u2" [] c = "127.0.0.3" -> "u3" [] OTHER -> "u4"
All == UNION { { St(c, "!open", <<>>), St(c, "PASS", <<<<"srvpass">>>>), St(c, "PASS", <<<<"bad">>>>), St(c, "NICK", <<<<Nick(c)>>>>),
                 St(c, "USER", <<<<Un(c)>>, <<"R">>>>), St(c, "QUIT", <<>>), St(c, "!close", <<>>), St(c, "!rst", <<>>),
                 St(c, "OPER", <<<<"god">>, <<"godpass">>>>), St(c, "KILL", <<<<"alice">>, <<"x">>>>), St(c, "KILL", <<<<"bob">>, <<"x">>>>),
                 St(c, "LUSERS", <<>>) } : c \in Conns4 }
Enabled(st) == IF st.cmd.verb = "!open" THEN st.c \notin DOMAIN S.conns ELSE st.c \in DOMAIN S.conns
Steps == {st \in All : Enabled(st)}
Init == InitWith(Cfg, Pre)
Next == NextWith(Steps)
Spec == Init /\ [][Next]_vars
Depth == 9
DepthT == 11
Constraint == Len(hist) <= Len(Pre) + Depth
ASSUME PrintT(<<"CFG", ToJson(CfgJson(Cfg))>>)
=============================================================================
