------------------------------- MODULE MC_Dns -------------------------------
(* C02 with the name service on (configuration item dns_lookup): the answer for a connection may arrive at any     *)
(* moment of its life - before it has a nickname, while it merely CLAIMS a nickname that somebody else has since   *)
(* registered, after its own registration, after a rename.  It concerns that connection and the user it            *)
(* registered itself, nobody else.                                                                                 *)
EXTENDS IrcModel
A == "127.0.0.1"
B == "127.0.0.2"
C == "127.0.0.3"
Cfg == [BaseCfg EXCEPT !.dns = TRUE]
Pre == << St(A, "!open", <<>>), St(B, "!open", <<>>), St(C, "!open", <<>>), St(C, "NICK", <<<<"carol">>>>), St(C, "USER", <<<<"u3">>, <<"Real u3">>>>),
          St(C, "JOIN", <<<<"#one">>>>) >>
Un(c) == IF c = A THEN "u1" ELSE "u2"
All == UNION { { St(c, "NICK", <<<<"prize">>>>), St(c, "NICK", <<<<"other">>>>), St(c, "USER", <<<<Un(c)>>, <<"R">>>>), St(c, "QUIT", <<>>), St(c, "JOIN", <<<<"#one">>>>) } : c \in {A, B} }
       \cup { St(C, "WHOIS", <<<<"prize">>>>), St(C, "WHO", <<<<"#one">>>>), St(C, "NICK", <<<<"prize">>>>) }
(* one answer per connection *)
Dns == { St(c, "!dns", <<>>) : c \in {A, B, C} }
Enabled(st) == st.c \in DOMAIN S.conns /\ (st \in Dns => ~(\E k \in DOMAIN hist : hist[k] = st))
Steps == {st \in All \cup Dns : Enabled(st)}
Init == InitWith(Cfg, Pre)
Next == NextWith(Steps)
Spec == Init /\ [][Next]_vars
Depth == 6
DepthT == 7
Constraint == Len(hist) <= Len(Pre) + Depth
ASSUME PrintT(<<"CFG", ToJson(CfgJson(Cfg))>>)
=============================================================================
