------------------------------- MODULE IrcProps -------------------------------
(***************************************************************************)
(* The listed properties, written a second time, declaratively, in the     *)
(* words of their statements, as predicates over one step                  *)
(*        (pre-state S, connection c, command cmd, result R = Apply(...))  *)
(* or over a state.  TLC checks on every transition of every model that    *)
(* the code-shaped handlers of IrcSpec agree with these formulations       *)
(* (double-entry bookkeeping: a mistake has to be made identically in two  *)
(* differently shaped definitions to go unnoticed).                        *)
(***************************************************************************)
EXTENDS IrcProj

OutTo(R, to) == SelectSeq(R.out, LAMBDA m : m.to = to)
Relays(R, verb) == SelectSeq(R.out, LAMBDA m : m.k = "r" /\ m.c = verb)
NumCodes(R, c) == {m.c : m \in {x \in ToSet(R.out) : x.to = c /\ x.k = "n"}}
CopiesTo(R, verb, to, a) == Cardinality({k \in DOMAIN R.out :
        R.out[k].k = "r" /\ R.out[k].c = verb /\ R.out[k].to = to /\ R.out[k].a = a})
Registered(S, c) == c \in DOMAIN S.conns /\ S.conns[c].authed
Ok(S, c, cmd) == Registered(S, c) /\ Validate(cmd) = <<>>
SameButUsersChans(A, B) ==
    /\ A.wallops = B.wallops /\ A.invCnt = B.invCnt /\ A.operCnt = B.operCnt /\ A.maxUsers = B.maxUsers
    /\ A.whowas = B.whowas /\ A.connCnt = B.connCnt /\ A.up = B.up /\ A.conns = B.conns

(* ---- C01: messages reach exactly the addressed audience, once, truly attributed ---- *)
C01_Step(S, c, cmd, R) ==
    (Ok(S, c, cmd) /\ cmd.verb \in {"PRIVMSG", "NOTICE"}) =>
    LET me == NickOf(S, c)
        src == me \o "!~" \o S.users[me].uname \o "@" \o c
        text == cmd.p[2][1]
        accepted(t) == LET tg == Target(t) IN
                       IF tg.ischan THEN tg.chan \in DOMAIN S.chans /\ MaySpeak(S, c, tg.chan)
                       ELSE t \in DOMAIN S.users
        expected(t) ==    \* receivers (as connections) of target t
            LET tg == Target(t) IN
            IF ~accepted(t) THEN {}
            ELSE IF ~tg.ischan THEN {S.users[t].host}
            ELSE LET ch == S.chans[tg.chan] IN
                 {S.users[m].host : m \in {n \in DOMAIN ch.members : n # me /\
                        (tg.ranks = {} \/ ch.members[n] \cap tg.ranks # {})}}
    IN /\ R.st = S
       /\ \A t \in ToSet(cmd.p[1]) : \A to \in DOMAIN S.conns :
             CopiesTo(R, cmd.verb, to, <<t, text>>) = IF to \in expected(t) THEN 1 ELSE 0
       /\ \A k \in DOMAIN R.out : R.out[k].k = "r" =>
             /\ R.out[k].c = cmd.verb /\ R.out[k].src = src
             /\ R.out[k].a[1] \in ToSet(cmd.p[1]) /\ R.out[k].a[2] = text

(* ---- C02: one owner per nickname (state invariant InvOwner) and acting only as oneself ---- *)
C02_Step(S, c, cmd, R) ==
    /\ InvOwner(S) => InvOwner(R.st)
    /\ (c \in DOMAIN S.conns /\ ~S.conns[c].authed /\ cmd.verb \notin {"!open"}) =>
          (* an unregistered connection changes no registered user, except by registering itself *)
          /\ \A n \in DOMAIN S.users : n \in DOMAIN R.st.users /\ R.st.users[n] = S.users[n]
          /\ \A n \in DOMAIN R.st.users \ DOMAIN S.users : R.st.users[n].host = c
          /\ R.st.chans = S.chans
          /\ \A k \in DOMAIN R.out : R.out[k].k = "r" => FALSE
    /\ \A k \in DOMAIN R.out : (R.out[k].k = "r" /\ Registered(S, c)) =>
          R.out[k].src = S.conns[c].src       \* every relay carries the issuer's own identity
    /\ (Registered(S, c) /\ cmd.verb \notin {"KILL", "DIE", "SQUIT"}) =>     \* it modifies only the user it registered itself:
          \A n \in DOMAIN S.users \ {NickOf(S, c)} :                          \* everybody else keeps identity, modes and away state
             /\ n \in DOMAIN R.st.users
             /\ \A f \in {"host", "uname", "real", "src", "modes", "away"} : R.st.users[n][f] = S.users[n][f]

(* ---- C03: nothing works before registration; registration needs the right password ---- *)
RequiredPw(S, uname) ==
    LET ui == UserCfgIdx(S, uname) IN
    IF ui # 0 /\ S.cfg.users[ui].pass # <<>> THEN S.cfg.users[ui].pass ELSE S.cfg.password
C03_Step(S, c, cmd, R) ==
    (c \in DOMAIN S.conns /\ ~S.conns[c].authed /\ cmd.verb \notin Faults /\ cmd.verb \in KnownVerbs) =>
    /\ (cmd.verb \notin PreRegVerbs /\ Validate(cmd) = <<>>) =>
          (R.st = S /\ R.out = << Num(S, c, "451", <<>>) >>)
    /\ (c \in DOMAIN R.st.conns /\ R.st.conns[c].authed) =>
          LET k == R.st.conns[c]
              ui == UserCfgIdx(S, k.uname[1])
              req == RequiredPw(S, k.uname[1])
          IN /\ k.nick # <<>> /\ k.uname # <<>> /\ ~k.capneg
             /\ (ui # 0 /\ S.cfg.users[ui].mask # <<>>) => Glob(S.cfg.users[ui].mask[1], k.src)
             /\ req # <<>> => k.pass = req
    /\ ("464" \in NumCodes(R, c)) => (c \notin DOMAIN R.st.conns /\ R.st.users = S.users)

(* ---- C04: membership is one consistent relation (InvSym) seen alike by NAMES, WHO, WHOIS ---- *)
RECURSIVE StripNickPrefix(_)
StripNickPrefix(s) == IF Len(s) > 0 /\ Chr(s, 1) \in PrefixChars THEN StripNickPrefix(Drop(s, 1)) ELSE s
RECURSIVE StripChanPrefix(_)
StripChanPrefix(s) == IF Len(s) > 1 /\ Chr(s, 1) \in PrefixChars /\ Chr(s, 2) \in (PrefixChars \cup {"#"})
                      THEN StripChanPrefix(Drop(s, 1)) ELSE s
C04_Views(S, c, x) ==     \* for a member c of channel x: the three views list exactly the members
    LET n == NickOf(S, c)
        names == {StripNickPrefix(m.a[2]) : m \in {y \in ToSet(NamesOut(S, c, x, TRUE)) : y.c = "353"}}
        who == {m.a[4] : m \in {y \in ToSet(HWho(S, c, x)) : y.c = "352"}}
        whois == {u \in DOMAIN S.users :
                    \E m \in ToSet(HWhois(S, c, <<>>, <<u>>)) : m.c = "319" /\ StripChanPrefix(m.a[2]) = x}
        mem == Members(S.chans[x])
    IN n \in mem => /\ names = mem /\ who = mem
                    /\ ("s" \notin S.chans[x].flags => whois = mem)
C04_State(S) ==
    /\ InvSym(S)
    /\ \A c \in DOMAIN S.conns : S.conns[c].authed =>
          \A x \in DOMAIN S.chans : C04_Views(S, c, x)
C04_Step(S, c, cmd, R) ==     \* every membership change is announced to all members, the leaver included
    (Ok(S, c, cmd) /\ cmd.verb \in {"JOIN", "PART", "KICK"}) =>
    \A x \in DOMAIN S.chans \cup DOMAIN R.st.chans :
       LET before == IF x \in DOMAIN S.chans THEN Members(S.chans[x]) ELSE {}
           after == IF x \in DOMAIN R.st.chans THEN Members(R.st.chans[x]) ELSE {}
           verb == cmd.verb
       IN \A n \in (before \ after) \cup (after \ before) :
             \A m \in before \cup after :
                \E k \in DOMAIN R.out : R.out[k].k = "r" /\ R.out[k].c = verb
                      /\ R.out[k].to = (IF m \in DOMAIN R.st.users THEN R.st.users[m].host ELSE S.users[m].host)
                      /\ R.out[k].a[1] = x

(* ---- C06: every way a session ends leaves no trace; nothing else changes ---- *)
ErasedOK(S, T, n) ==    \* T is S without user n
    /\ n \notin DOMAIN T.users /\ n \notin T.wallops
    /\ \A x \in DOMAIN T.chans : n \notin DOMAIN T.chans[x].members /\ \A r \in RankSet : n \notin T.chans[x].rs[r]
    /\ n \in DOMAIN T.whowas /\ Len(T.whowas[n]) = (IF n \in DOMAIN S.whowas THEN Len(S.whowas[n]) ELSE 0) + 1
    /\ \A x \in DOMAIN S.chans :
          IF Members(S.chans[x]) \subseteq {n} /\ n \in Members(S.chans[x]) /\ ~S.chans[x].preconf
          THEN x \notin DOMAIN T.chans
          ELSE x \in DOMAIN T.chans /\ T.chans[x] = RemoveMember(S.chans[x], n)
    /\ DOMAIN T.chans \subseteq DOMAIN S.chans
    /\ \A m \in DOMAIN S.users \ {n} : m \in DOMAIN T.users /\ T.users[m] = S.users[m]
    /\ DOMAIN T.users = DOMAIN S.users \ {n}
    /\ T.invCnt = S.invCnt - (IF "i" \in S.users[n].modes THEN 1 ELSE 0)
    /\ T.operCnt = S.operCnt - (IF IsOper(S.users[n]) THEN 1 ELSE 0)
    /\ T.wallops = S.wallops \ {n} /\ T.maxUsers = S.maxUsers /\ T.up = S.up
    /\ \A m \in DOMAIN S.whowas \ {n} : m \in DOMAIN T.whowas /\ T.whowas[m] = S.whowas[m]
C06_Step(S, c, cmd, R) ==
    /\ (Registered(S, c) /\ cmd.verb \in {"QUIT", "!close", "!rst", "!half"}) =>
          /\ ErasedOK(S, R.st, NickOf(S, c))
          /\ c \notin DOMAIN R.st.conns /\ R.st.connCnt = S.connCnt - 1
          /\ \A d \in DOMAIN S.conns \ {c} : d \in DOMAIN R.st.conns /\ R.st.conns[d] = S.conns[d]
    /\ (Ok(S, c, cmd) /\ cmd.verb = "KILL" /\ "o" \in UserOf(S, c).modes /\ cmd.p[1][1] \in DOMAIN S.users) =>
          LET v == cmd.p[1][1] IN
          /\ ErasedOK(S, R.st, v)
          /\ S.users[v].host \notin DOMAIN R.st.conns
          /\ \E k \in DOMAIN R.out : R.out[k].to = S.users[v].host /\ R.out[k].c = "ERROR"
                                      /\ R.out[k].a = <<"killed", NickOf(S, c), cmd.p[2][1]>>

(* ---- C07: JOIN admits exactly those whom key, bans, invitation, limit and quota allow ---- *)
Admissible(S, c, x, key) ==
    LET ch == S.chans[x]
        u == UserOf(S, c)
        src == S.conns[c].src
    IN /\ (ch.key # <<>> => key = ch.key)
       /\ ((\A b \in ch.ban : ~Glob(b, src)) \/ (\E e \in ch.exc : Glob(e, src)))
       /\ ("i" \in ch.flags => (x \in u.invited \/ \E m \in ch.invex : Glob(m, src)))
       /\ (ch.limit # <<>> => Cardinality(Members(ch)) < ch.limit[1])
       /\ (S.cfg.max_joins # <<>> => Cardinality(u.chans) < S.cfg.max_joins[1])
FailedCodes(S, c, x, key) ==
    LET ch == S.chans[x]
        u == UserOf(S, c)
        src == S.conns[c].src
    IN (IF ch.key # <<>> /\ key # ch.key THEN {"475"} ELSE {})
       \cup (IF (\E b \in ch.ban : Glob(b, src)) /\ ~(\E e \in ch.exc : Glob(e, src)) THEN {"474"} ELSE {})
       \cup (IF "i" \in ch.flags /\ x \notin u.invited /\ ~(\E m \in ch.invex : Glob(m, src)) THEN {"473"} ELSE {})
       \cup (IF ch.limit # <<>> /\ Cardinality(Members(ch)) >= ch.limit[1] THEN {"471"} ELSE {})
       \cup (IF S.cfg.max_joins # <<>> /\ Cardinality(u.chans) >= S.cfg.max_joins[1] THEN {"405"} ELSE {})
C07_Step(S, c, cmd, R) ==
    (Ok(S, c, cmd) /\ cmd.verb = "JOIN" /\ Len(cmd.p[1]) = 1 /\ cmd.p[1][1] \in DOMAIN S.chans
       /\ NickOf(S, c) \notin Members(S.chans[cmd.p[1][1]])) =>
    LET x == cmd.p[1][1]
        n == NickOf(S, c)
        key == IF Has(cmd.p, 2) THEN <<cmd.p[2][1]>> ELSE <<>>
    IN IF Admissible(S, c, x, key)
       THEN /\ n \in Members(R.st.chans[x]) /\ x \in R.st.users[n].chans
            /\ x \notin R.st.users[n].invited
            /\ \A m \in Members(R.st.chans[x]) : CopiesTo(R, "JOIN", R.st.users[m].host, <<x>>) = 1
            /\ NumCodes(R, c) \cap {"475", "474", "473", "471", "405"} = {}
       ELSE /\ R.st = S
            /\ Relays(R, "JOIN") = <<>>
            /\ NumCodes(R, c) # {} /\ NumCodes(R, c) \subseteq FailedCodes(S, c, x, key)

(* ---- C08: channel modes change only by members of sufficient rank ---- *)
Needs(letter) == IF letter = "q" THEN {"q"} ELSE IF letter = "a" THEN {"q", "a"}
                 ELSE IF letter \in {"o", "h"} THEN {"q", "a", "o"} ELSE {"q", "a", "o", "h"}
ChanPart(ch, letter) ==     \* the part of a channel record a mode letter governs
    IF letter \in RankSet THEN <<[n \in DOMAIN ch.members |-> letter \in ch.members[n]], ch.rs[letter]>>
    ELSE IF letter = "b" THEN <<ch.ban, ch.banwho>> ELSE IF letter = "e" THEN <<ch.exc>>
    ELSE IF letter = "I" THEN <<ch.invex>> ELSE IF letter = "k" THEN <<ch.key>>
    ELSE IF letter = "l" THEN <<ch.limit>> ELSE <<letter \in ch.flags>>
ModeLetters == {"q", "a", "o", "h", "v", "b", "e", "I", "k", "l", "i", "m", "t", "n", "s"}
C08_Step(S, c, cmd, R) ==
    (Ok(S, c, cmd) /\ cmd.verb = "MODE" /\ ValidChannel(cmd.p[1][1])) =>
    LET x == cmd.p[1][1]
        n == NickOf(S, c)
    IN IF x \notin DOMAIN S.chans \/ n \notin Members(S.chans[x])
       THEN R.st = S /\ Relays(R, "MODE") = <<>>
            /\ NumCodes(R, c) = {IF x \notin DOMAIN S.chans THEN "403" ELSE "442"}
       ELSE LET r == S.chans[x].members[n]
                ch == S.chans[x]
                ch2 == R.st.chans[x]
            IN /\ \A l \in ModeLetters : (r \cap Needs(l) = {}) => ChanPart(ch2, l) = ChanPart(ch, l)
               /\ [R.st EXCEPT !.chans = S.chans] = S          \* nothing but this channel changes
               /\ Members(ch2) = Members(ch) /\ ch2.topic = ch.topic /\ ch2.preconf = ch.preconf /\ ch2.def = ch.def
               /\ (ch2 # ch) => \A m \in Members(ch) :
                     Cardinality({k \in DOMAIN R.out : R.out[k].k = "r" /\ R.out[k].c = "MODE"
                                     /\ R.out[k].to = S.users[m].host /\ R.out[k].a[1] = x}) = 1
               /\ (ch2 = ch /\ \A l \in ModeLetters : r \cap Needs(l) = {}) => Relays(R, "MODE") = <<>>

(* ---- C09: KICK, TOPIC and INVITE obey channel rank ---- *)
MayKick(ra, rv) == RkHalfOp(ra) /\ ~RkProtected(rv) /\ ~(RkOnlyHalfOp(ra) /\ RkHalfOp(rv))
C09_Step(S, c, cmd, R) ==
    /\ (Ok(S, c, cmd) /\ cmd.verb = "KICK" /\ cmd.p[1][1] \in DOMAIN S.chans) =>
          LET x == cmd.p[1][1]
              n == NickOf(S, c)
              ch == S.chans[x]
              after == IF x \in DOMAIN R.st.chans THEN Members(R.st.chans[x]) ELSE {}
          IN \A v \in Members(ch) :
                IF n \in Members(ch) /\ v \in ToSet(cmd.p[2]) /\ MayKick(ch.members[n], ch.members[v])
                THEN /\ v \notin after
                     /\ \A m \in after \cup {v} :
                           \E k \in DOMAIN R.out : R.out[k].k = "r" /\ R.out[k].c = "KICK"
                                 /\ R.out[k].to = S.users[m].host /\ R.out[k].a[1] = x /\ R.out[k].a[2] = v
                ELSE v \in after /\ R.st.chans[x].members[v] = ch.members[v]
    /\ (Ok(S, c, cmd) /\ cmd.verb = "TOPIC" /\ Has(cmd.p, 2) /\ cmd.p[1][1] \in DOMAIN S.chans) =>
          LET x == cmd.p[1][1]
              n == NickOf(S, c)
              ch == S.chans[x]
              may == n \in Members(ch) /\ ("t" \in ch.flags => RkHalfOp(ch.members[n]))
          IN IF may
             THEN /\ R.st.chans[x].topic = (IF cmd.p[2][1] = "" THEN <<>> ELSE <<cmd.p[2][1]>>)
                  /\ \A m \in Members(ch) : CopiesTo(R, "TOPIC", S.users[m].host, <<x, cmd.p[2][1]>>) = 1
             ELSE R.st = S /\ Relays(R, "TOPIC") = <<>>
    /\ (Ok(S, c, cmd) /\ cmd.verb = "INVITE" /\ cmd.p[2][1] \in DOMAIN S.chans) =>
          LET x == cmd.p[2][1]
              who == cmd.p[1][1]
              n == NickOf(S, c)
              ch == S.chans[x]
              may == /\ n \in Members(ch) /\ ("i" \in ch.flags => "o" \in ch.members[n])
                     /\ who \in DOMAIN S.users /\ who \notin Members(ch)
          IN IF may
             THEN /\ x \in R.st.users[who].invited
                  /\ Len(Relays(R, "INVITE")) = 1 /\ Relays(R, "INVITE")[1].to = S.users[who].host
                  /\ [R.st EXCEPT !.users = S.users] = S
             ELSE R.st = S /\ Relays(R, "INVITE") = <<>>

(* ---- C10: speaking restrictions hold and NOTICE is never answered ---- *)
C10_Step(S, c, cmd, R) ==
    (Ok(S, c, cmd) /\ cmd.verb \in {"PRIVMSG", "NOTICE"}) =>
    /\ \A t \in ToSet(cmd.p[1]) :
          LET tg == Target(t) IN
          (tg.ischan /\ tg.chan \in DOMAIN S.chans) =>
             LET ch == S.chans[tg.chan]
                 n == NickOf(S, c)
                 src == S.conns[c].src
                 allowed == /\ (n \in Members(ch) \/ ("n" \notin ch.flags /\ "s" \notin ch.flags))
                            /\ ~((\E b \in ch.ban : Glob(b, src)) /\ ~(\E e \in ch.exc : Glob(e, src)))
                            /\ ("m" \in ch.flags => (n \in Members(ch) /\ ch.members[n] # {}))
             IN IF allowed
                THEN ~\E k \in DOMAIN R.out : R.out[k].c = "404" /\ R.out[k].a = <<tg.chan>>
                ELSE /\ ~\E k \in DOMAIN R.out : R.out[k].k = "r" /\ R.out[k].a[1] = t
                     /\ (cmd.verb = "PRIVMSG" => \E k \in DOMAIN R.out : R.out[k].c = "404" /\ R.out[k].to = c)
    /\ cmd.verb = "NOTICE" => \A k \in DOMAIN R.out : R.out[k].k = "r"
    /\ cmd.verb = "PRIVMSG" => \A t \in ToSet(cmd.p[1]) :
          (t \in DOMAIN S.users /\ S.users[t].away # <<>>) =>
             \E k \in DOMAIN R.out : R.out[k].c = "301" /\ R.out[k].a = <<t, S.users[t].away[1]>>

(* ---- C11: operator status comes only from OPER; operator commands require it ---- *)
C11_Step(S, c, cmd, R) ==
    /\ \A n \in DOMAIN R.st.users :
          (IsOper(R.st.users[n]) /\ n \in DOMAIN S.users /\ ~IsOper(S.users[n])) =>
             (* somebody became an operator in this step: it is the issuer, by a valid OPER *)
             /\ Registered(S, c) /\ n = NickOf(S, c) /\ cmd.verb = "OPER"
             /\ LET oi == OperCfgIdx(S, cmd.p[1][1]) IN
                oi # 0 /\ cmd.p[2][1] = S.cfg.operators[oi].pass
                /\ (S.cfg.operators[oi].mask # <<>> => Glob(S.cfg.operators[oi].mask[1], S.conns[c].src))
    /\ \A n \in DOMAIN R.st.users \ DOMAIN S.users :
          LET prev == {m \in DOMAIN S.users : S.users[m].host = R.st.users[n].host} IN
          IF prev = {} THEN R.st.users[n].modes \subseteq S.cfg.default_modes \cup {"r"}    \* a new user
          ELSE \A m \in prev : IsOper(R.st.users[n]) => IsOper(S.users[m])                   \* a renamed one
    /\ (Ok(S, c, cmd) /\ cmd.verb = "MODE" /\ ~ValidChannel(cmd.p[1][1])) =>
          \A n \in DOMAIN S.users \ {NickOf(S, c)} : n \in DOMAIN R.st.users /\ R.st.users[n] = S.users[n]
    /\ (Ok(S, c, cmd) /\ cmd.verb \in {"KILL", "DIE"} /\ "o" \notin UserOf(S, c).modes) =>
          R.st = S /\ NumCodes(R, c) = {IF cmd.verb = "KILL" THEN "481" ELSE "483"}
    /\ (Ok(S, c, cmd) /\ cmd.verb = "SQUIT" /\ "o" \notin UserOf(S, c).modes) => R.st = S
    /\ (Ok(S, c, cmd) /\ cmd.verb \in {"WALLOPS", "STATS"} /\ ~IsOper(UserOf(S, c))) =>
          R.st = S /\ ("481" \in NumCodes(R, c) \/ "400" \in NumCodes(R, c)) /\ Relays(R, "WALLOPS") = <<>>
    /\ (Ok(S, c, cmd) /\ cmd.verb = "WALLOPS" /\ IsOper(UserOf(S, c))) =>
          \A d \in DOMAIN S.conns :
             CopiesTo(R, "WALLOPS", d, <<cmd.p[1][1]>>) =
                (IF \E n \in DOMAIN S.users : S.users[n].host = d /\ "w" \in S.users[n].modes THEN 1 ELSE 0)
    /\ (Ok(S, c, cmd) /\ cmd.verb = "DIE" /\ "o" \in UserOf(S, c).modes) =>
          R.st.users = <<>> /\ ~R.st.up

(* ---- C12: secret channels and invisible users stay hidden from outsiders ---- *)
HideChan(S, x) ==
    [S EXCEPT !.chans = Del(S.chans, x),
              !.users = [n \in DOMAIN S.users |->
                           [S.users[n] EXCEPT !.chans = S.users[n].chans \ {x}, !.invited = S.users[n].invited \ {x}]]]
HideUser(S, n) ==
    LET S1 == [S EXCEPT !.users = Del(S.users, n), !.wallops = S.wallops \ {n},
                        !.conns = Del(S.conns, S.users[n].host)]
    IN [S1 EXCEPT !.chans = [x \in DOMAIN S.chans |-> RemoveMember(S.chans[x], n)]]
QueryOut(S, c, cmd) == BagOf(Apply(S, c, cmd).out)
IsQuery(cmd) == cmd.verb \in {"LIST", "NAMES", "WHO", "WHOIS"}
C12_Step(S, c, cmd, R) ==
    (Ok(S, c, cmd) /\ IsQuery(cmd)) =>
    LET me == NickOf(S, c) IN
    /\ \A x \in DOMAIN S.chans :
          ("s" \in S.chans[x].flags /\ me \notin Members(S.chans[x])) =>
             BagOf(R.out) = QueryOut(HideChan(S, x), c, cmd)
    /\ \A n \in DOMAIN S.users :
          (n # me /\ "i" \in S.users[n].modes /\ ~Shares(S, me, n) /\ cmd.verb # "LIST") =>
             BagOf(R.out) = QueryOut(HideUser(S, n), c, cmd)

(* ---- C15: a nick change moves the whole identity and nothing else ---- *)
Subst(old, new, n) == IF n = old THEN new ELSE n
RenameState(S, old, new) ==      \* S with old replaced by new in every nick-keyed container
    LET f(n) == Subst(old, new, n)
        g(n) == IF n = new THEN old ELSE n
    IN [S EXCEPT
          !.users = [n \in {f(m) : m \in DOMAIN S.users} |-> S.users[g(n)]],
          !.chans = [x \in DOMAIN S.chans |->
                      [S.chans[x] EXCEPT !.members = [n \in {f(m) : m \in DOMAIN S.chans[x].members} |-> S.chans[x].members[g(n)]],
                                         !.rs = [r \in RankSet |-> {f(m) : m \in S.chans[x].rs[r]}]]],
          !.wallops = {f(m) : m \in S.wallops}]
C15_Step(S, c, cmd, R) ==
    (Ok(S, c, cmd) /\ cmd.verb = "NICK") =>
    LET old == NickOf(S, c)
        new == cmd.p[1][1]
    IN IF new = old THEN R.st = S /\ R.out = <<>>
       ELSE IF new \in DOMAIN S.users THEN R.st = S /\ NumCodes(R, c) = {"433"} /\ Relays(R, "NICK") = <<>>
       ELSE LET X == RenameState(S, old, new) IN
            /\ R.st.chans = X.chans /\ R.st.wallops = X.wallops
            /\ DOMAIN R.st.users = DOMAIN X.users
            /\ \A n \in DOMAIN X.users : [R.st.users[n] EXCEPT !.src = ""] = [X.users[n] EXCEPT !.src = ""]
            /\ R.st.users[new].src = new \o "!~" \o S.users[old].uname \o "@" \o c
            /\ R.st.conns[c].nick = <<new>>
            /\ old \in DOMAIN R.st.whowas /\ Last(R.st.whowas[old]).uname = S.users[old].uname
            /\ R.st.invCnt = S.invCnt /\ R.st.operCnt = S.operCnt /\ R.st.maxUsers = S.maxUsers
            /\ \A m \in {new} \cup {p \in DOMAIN S.users : p # old /\ Shares(S, old, p)} :
                  CopiesTo(R, "NICK", R.st.users[m].host, <<new>>) = 1

(* ---- C16: channels are born with a founder, die with the last member, or come from config ---- *)
C16_State(S) == InvEmptyChan(S) /\
    \A k \in DOMAIN S.cfg.channels : S.cfg.channels[k].name \in DOMAIN S.chans /\ S.chans[S.cfg.channels[k].name].preconf
C16_Step(S, c, cmd, R) ==
    /\ \A x \in DOMAIN R.st.chans \ DOMAIN S.chans :      \* born: without restrictions, creator founder+operator
          /\ Registered(S, c) /\ cmd.verb = "JOIN"
          /\ LET ch == R.st.chans[x]
                 n == NickOf(S, c)
             IN /\ ch.members = (n :> {"q", "o"})
                /\ ch.rs = [r \in RankSet |-> IF r \in {"q", "o"} THEN {n} ELSE {}]
                /\ ch.flags = {} /\ ch.key = <<>> /\ ch.limit = <<>> /\ ch.ban = {} /\ ch.exc = {} /\ ch.invex = {}
                /\ ch.topic = <<>> /\ ~ch.preconf /\ ch.def = EmptyRs
    /\ \A x \in DOMAIN S.chans \cap DOMAIN R.st.chans :
          /\ R.st.chans[x].preconf = S.chans[x].preconf /\ R.st.chans[x].def = S.chans[x].def
          /\ cmd.verb = "JOIN" => \A n \in Members(R.st.chans[x]) \ Members(S.chans[x]) :    \* configured ranks on every join
                R.st.chans[x].members[n] = {r \in RankSet : n \in S.chans[x].def[r]}
    /\ \A x \in DOMAIN S.chans \ DOMAIN R.st.chans : ~S.chans[x].preconf

(* ---- C19: reported statistics are true ---- *)
C19_Step(S, c, cmd, R) ==
    /\ InvCounters(S) => InvCounters(R.st)
    /\ R.st.maxUsers >= S.maxUsers
    /\ (S.maxUsers >= Cardinality(DOMAIN S.users)) =>       \* the maximum is the high-water mark: it follows the user count up, never down
          R.st.maxUsers = IF Cardinality(DOMAIN R.st.users) > S.maxUsers THEN Cardinality(DOMAIN R.st.users) ELSE S.maxUsers
    /\ (Ok(S, c, cmd) /\ cmd.verb = "LUSERS") =>
          LET nu == Cardinality(DOMAIN S.users)
              inv == Cardinality({n \in DOMAIN S.users : "i" \in S.users[n].modes})
              ops == Cardinality({n \in DOMAIN S.users : IsOper(S.users[n])})
              arg(code) == (CHOOSE m \in ToSet(R.out) : m.c = code).a
          IN InvCounters(S) =>
             /\ arg("251") = <<NatToStr(nu - inv), NatToStr(inv)>>
             /\ arg("252") = <<NatToStr(ops)>>
             /\ arg("254") = <<NatToStr(Cardinality(DOMAIN S.chans))>>
             /\ arg("265") = <<NatToStr(nu), NatToStr(S.maxUsers)>>
    /\ (Ok(S, c, cmd) /\ cmd.verb = "ISON") =>
          {m.a[1] : m \in {y \in ToSet(R.out) : y.c = "303i"}} = ToSet(cmd.p[1]) \cap DOMAIN S.users
    /\ (Ok(S, c, cmd) /\ cmd.verb = "USERHOST") =>
          {m.a[1] : m \in {y \in ToSet(R.out) : y.c = "302i"}} =
             { n \o (IF "o" \in S.users[n].modes \/ "O" \in S.users[n].modes THEN "*" ELSE "") \o "="
                 \o (IF S.users[n].away # <<>> THEN "-" ELSE "+") \o "~" \o S.users[n].uname \o "@" \o S.users[n].host :
               n \in ToSet(cmd.p[1]) \cap DOMAIN S.users }

AllStepProps(S, c, cmd, R) ==
    /\ C01_Step(S, c, cmd, R) /\ C02_Step(S, c, cmd, R) /\ C03_Step(S, c, cmd, R) /\ C04_Step(S, c, cmd, R)
    /\ C06_Step(S, c, cmd, R) /\ C07_Step(S, c, cmd, R) /\ C08_Step(S, c, cmd, R) /\ C09_Step(S, c, cmd, R)
    /\ C10_Step(S, c, cmd, R) /\ C11_Step(S, c, cmd, R) /\ C12_Step(S, c, cmd, R) /\ C15_Step(S, c, cmd, R)
    /\ C16_Step(S, c, cmd, R) /\ C19_Step(S, c, cmd, R)
AllStateProps(S) == AllInv(S) /\ C04_State(S) /\ C16_State(S) /\ WF(S)
=============================================================================
