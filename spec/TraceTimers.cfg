SPECIFICATION TSpec
CONSTANTS
MaxPing = 4
MaxPong = 5
Horizon = 24
ReplaceOnPing = FALSE
CHECK_DEADLOCK FALSE
