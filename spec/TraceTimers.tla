------------------------------- MODULE TraceTimers -------------------------------
(***************************************************************************)
(* C17 on the real server: validation of recorded keep-alive runs (one     *)
(* record per (ping_timeout, pong_timeout, client pattern), times in       *)
(* milliseconds since registration) against the Keepalive specification:   *)
(* PINGs every ping_timeout, the client's own PING answered with the same  *)
(* token, a live client kept, a dead one sent ERROR and disconnected at    *)
(* ExpectedDrop (not early, and no later than the scheduling slack), and   *)
(* removed from the state (C06).                                           *)
(***************************************************************************)
EXTENDS KeepaliveDefs, Sequences, FiniteSets, TLC, Json, IOUtils, SequencesExt

Runs == ndJsonDeserialize(IOEnv.TRACE)
Slack == 1000      \* late tolerance (ms): "plus scheduling slack"
Early == 200       \* timers never fire early; tolerance for clock reading

PingTimes(r) == SelectSeq(r.events, LAMBDA e : e.k = "ping")
Problems(r) ==
    LET exp == ExpectedDrop(r.ping, r.pong, r.pattern) * 1000
        late == r.pattern \in {"late1", "late2"}
        (* a late answer that is not in time for pong_timeout: dropped after the first PING *)
        expd == IF late /\ Delay(r.pattern) >= r.pong THEN (r.ping + r.pong) * 1000 ELSE exp
        pt == PingTimes(r)
    IN (IF "pre_ping" \in DOMAIN r /\ r.pre_ping THEN {"PING sent to a connection that has not registered"} ELSE {})
       \cup (IF ~r.pong_token_ok THEN {"own PING not answered with the same token"} ELSE {})
       \cup (IF expd = 0 /\ r.dropped_at >= 0 THEN {"live client disconnected"} ELSE {})
       \cup (IF expd > 0 /\ expd + Slack <= r.window /\ r.dropped_at < 0 THEN {"dead client not disconnected in time"} ELSE {})
       \cup (IF expd > 0 /\ r.dropped_at >= 0 /\ r.dropped_at > expd + Slack THEN {"dead client disconnected too late"} ELSE {})
       \cup (IF expd > 0 /\ r.dropped_at >= 0 /\ r.dropped_at + Early < expd THEN {"client disconnected early"} ELSE {})
       \cup (IF r.dropped_at >= 0 /\ r.error_at < 0 THEN {"disconnected without ERROR"} ELSE {})
       \cup (IF r.dropped_at >= 0 /\ r.user_present_after THEN {"user still registered after the drop"} ELSE {})
       \cup (IF r.dropped_at < 0 /\ ~r.user_present_after THEN {"kept client lost its user"} ELSE {})
       \cup (IF \E k \in DOMAIN pt : pt[k].t + Early < k * r.ping * 1000 \/ pt[k].t > k * r.ping * 1000 + Slack
             THEN {"PING not sent every ping_timeout"} ELSE {})
       \cup (IF r.dropped_at < 0 /\ Len(pt) + 1 < r.window \div (r.ping * 1000) THEN {"too few PINGs"} ELSE {})

VARIABLE i
TInit == i = 1
TNext ==
    /\ i <= Len(Runs)
    /\ LET r == Runs[i] IN
       IF "error" \in DOMAIN r THEN PrintT(<<"TIMERERR", ToJson(r)>>)
       ELSE LET p == Problems(r) IN
            IF p = {} THEN TRUE
            ELSE PrintT(<<"TIMER", ToJson([ping |-> r.ping, pong |-> r.pong, pattern |-> r.pattern,
                                           problems |-> SetToSeq(p), dropped_at |-> r.dropped_at, pings |-> r.pings])>>)
    /\ i' = i + 1
TSpec == TInit /\ [][TNext]_i
=============================================================================
