------------------------------- MODULE MC_Nick -------------------------------
(* C15: nick changes by a user carrying memberships with ranks, modes, operator status, away *)
(* state and invitations, to free / own / taken / claimed-unregistered / previously used /     *)
(* invalid nicknames, repeated, followed by probes under the new name                          *)
EXTENDS IrcModel
A == "127.0.0.1"
B == "127.0.0.2"
C == "127.0.0.3"
D == "127.0.0.4"
Cfg == [BaseCfg EXCEPT !.operators = << [name |-> "god", pass |-> "godpass", mask |-> <<>>] >>]
Pre == Reg(A, "alice", "u1") \o Reg(B, "bob", "u2") \o Reg(C, "carol", "u3") \o << St(D, "!open", <<>>), St(D, "NICK", <<<<"claimed">>>>) >>
       \o << St(A, "JOIN", <<<<"#one">>>>), St(B, "JOIN", <<<<"#one">>>>) >>
Attach == { St(A, "MODE", <<<<"#one">>, <<"+v", "bob">>>>), St(A, "MODE", <<<<"#one">>, <<"+h", "bob">>>>), St(B, "JOIN", <<<<"#two">>>>),
            St(B, "MODE", <<<<"bob">>, <<"+iw">>>>), St(B, "OPER", <<<<"god">>, <<"godpass">>>>), St(B, "AWAY", <<<<"zzz">>>>),
            St(A, "MODE", <<<<"#one">>, <<"+i">>>>), St(C, "JOIN", <<<<"#three">>>>), St(C, "INVITE", <<<<"bob">>, <<"#three">>>>) }
N10 == "abcdefghij"
N40 == N10 \o N10 \o N10 \o N10
N201 == N40 \o N40 \o N40 \o N40 \o N40 \o "x"
Nicks == { St(B, "NICK", <<<<n>>>>) : n \in {"robert", "bob", "alice", "claimed", "bobby", "a.b", "#chan", N201} }
         \cup { St(A, "NICK", <<<<"bob">>>>), St(C, "NICK", <<<<"bob">>>>), St(D, "USER", <<<<"u4">>, <<"R">>>>) }
Probes == { St(A, "NAMES", <<<<"#one">>>>), St(A, "WHOIS", <<<<"robert">>>>), St(A, "WHOWAS", <<<<"bob">>>>), St(B, "WALLOPS", <<<<"w">>>>),
            St(B, "JOIN", <<<<"#three">>>>), St(A, "PRIVMSG", <<<<"robert">>, <<"hi">>>>), St(A, "PRIVMSG", <<<<"bob">>, <<"hi">>>>),
            St(B, "MODE", <<<<"robert">>>>), St(A, "MODE", <<<<"#one">>>>), St(C, "LUSERS", <<>>) }
Enabled(st) == st.c \in DOMAIN S.conns
Steps == {st \in Attach \cup Nicks \cup Probes : Enabled(st)}
Init == InitWith(Cfg, Pre)
Next == NextWith(Steps)
Spec == Init /\ [][Next]_vars
Depth == 4
DepthT == 5
Constraint == Len(hist) <= Len(Pre) + Depth
ASSUME PrintT(<<"CFG", ToJson(CfgJson(Cfg))>>)
=============================================================================
