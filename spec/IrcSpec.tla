------------------------------- MODULE IrcSpec -------------------------------
(***************************************************************************)
(* Functional specification of simple-irc-server.                          *)
(*                                                                         *)
(* The whole server state is one record S; every handler is an operator    *)
(*    H(S, c, ...) == [st |-> S', out |-> <<messages>>]                     *)
(* and Apply(S, c, cmd) is what the server does with one input line (or    *)
(* one fault) on connection c, up to quiescence: the direct replies, the   *)
(* lines queued for other connections and the teardown of every session    *)
(* the command ends.  One source of truth for model checking (MC_*.tla),   *)
(* behaviour generation (Gen.tla) and trace validation (TraceSeq.tla).     *)
(*                                                                         *)
(* The specification states the behaviour the listed properties demand.    *)
(* Where the code deviates in ways no property forbids, the code is        *)
(* modelled (each such place is marked DEVIATION).                         *)
(***************************************************************************)
EXTENDS IrcUtil

(***************************************************************************)
(* State.  S = [cfg, users, chans, wallops, invCnt, operCnt, maxUsers,     *)
(*              whowas, connCnt, up, conns]                                *)
(*  users[n] = [host, uname, real, src, modes, away, chans, invited]       *)
(*  chans[x] = [members, rs, flags, key, limit, ban, exc, invex, banwho,   *)
(*              topic, topicby, preconf, def]                              *)
(*  conns[c] = [nick, uname, real, pass, src, authed, cfgreg, capneg, mp,  *)
(*              hasq, quit]    (c is the connection id = client address)   *)
(***************************************************************************)
Ranks == <<"q", "a", "o", "h", "v">>
RankSet == {"q", "a", "o", "h", "v"}
RankSym == ("q" :> "~") @@ ("a" :> "&") @@ ("o" :> "@") @@ ("h" :> "%") @@ ("v" :> "+")
SymRank == ("~" :> "q") @@ ("&" :> "a") @@ ("@" :> "o") @@ ("%" :> "h") @@ ("+" :> "v")
EmptyRs == [r \in RankSet |-> {}]

(* ---- configuration (S.cfg) from the abstract configuration record ---- *)
CfgChannel(ch) ==
    [ members |-> EmptyFn, rs |-> EmptyRs, flags |-> ch.flags,
      key |-> ch.key, limit |-> ch.limit, ban |-> ch.ban, exc |-> ch.exc, invex |-> ch.invex,
      banwho |-> EmptyFn, topic |-> ch.topic,
      topicby |-> IF ch.topic = <<>> THEN <<>> ELSE <<"">>,
      preconf |-> TRUE, def |-> [r \in RankSet |-> ch[r]] ]

InitState(cfg) ==
    [ cfg |-> cfg,
      users |-> EmptyFn,
      chans |-> [n \in {cfg.channels[i].name : i \in DOMAIN cfg.channels} |->
                   CfgChannel(cfg.channels[CHOOSE i \in DOMAIN cfg.channels :
                        cfg.channels[i].name = n /\ \A j \in DOMAIN cfg.channels :
                            cfg.channels[j].name = n => j <= i])],
      wallops |-> {}, invCnt |-> 0, operCnt |-> 0, maxUsers |-> 0,
      whowas |-> EmptyFn, connCnt |-> 0, up |-> TRUE, conns |-> EmptyFn ]

FreshConn(c) ==
    [ nick |-> <<>>, uname |-> <<>>, real |-> <<>>, pass |-> <<>>, src |-> "@" \o c,
      authed |-> FALSE, cfgreg |-> FALSE, capneg |-> FALSE, mp |-> FALSE, hasq |-> TRUE,
      quit |-> FALSE, stalled |-> FALSE ]

(* ---- messages ---- *)
ClientName(S, c) ==
    LET k == S.conns[c] IN
    IF k.nick # <<>> THEN k.nick[1] ELSE IF k.uname # <<>> THEN k.uname[1] ELSE c
Num(S, c, code, a) == [to |-> c, k |-> "n", c |-> code, cl |-> ClientName(S, c), src |-> "", a |-> a]
(* the addressee field of 433 is not compared: while a registration races with the owner of  *)
(* the nickname it is the claimed nick or the user/host name depending on timing           *)
Num433(c, n) == [to |-> c, k |-> "n", c |-> "433", cl |-> "", src |-> "", a |-> <<n>>]
Srv(c, verb, a) == [to |-> c, k |-> "s", c |-> verb, cl |-> "", src |-> "", a |-> a]
Rel(to, src, verb, a) == [to |-> to, k |-> "r", c |-> verb, cl |-> "", src |-> src, a |-> a]
Eof(c) == Srv(c, "EOF", <<>>)
Res(S, out) == [st |-> S, out |-> out]

SrcOf(k, c) ==
    (IF k.nick # <<>> THEN k.nick[1] \o "!" ELSE "") \o
    (IF k.uname # <<>> THEN "~" \o k.uname[1] ELSE "") \o "@" \o c

NickOf(S, c) == S.conns[c].nick[1]
UserOf(S, c) == S.users[NickOf(S, c)]
HostOfNick(S, n) == S.users[n].host
SetConn(S, c, k) == [S EXCEPT !.conns = Upd(S.conns, c, k)]
SetUser(S, n, u) == [S EXCEPT !.users = Upd(S.users, n, u)]
SetChan(S, x, ch) == [S EXCEPT !.chans = Upd(S.chans, x, ch)]

IsOper(u) == "o" \in u.modes \/ "O" \in u.modes
UModeStr(m) == "+" \o (IF "i" \in m THEN "i" ELSE "") \o (IF "o" \in m THEN "o" ELSE "") \o
               (IF "O" \in m THEN "O" ELSE "") \o (IF "r" \in m THEN "r" ELSE "") \o
               (IF "w" \in m THEN "w" ELSE "")

(* rank predicates (ChannelUserModes) *)
RkProtected(r) == "q" \in r \/ "a" \in r
RkOperator(r) == RkProtected(r) \/ "o" \in r
RkHalfOp(r) == RkOperator(r) \/ "h" \in r
RkOnlyHalfOp(r) == "h" \in r /\ ~RkOperator(r)
RkVoice(r) == RkHalfOp(r) \/ "v" \in r
(* prefix shown in NAMES/WHO/WHOIS: highest rank, or all with multi-prefix *)
RECURSIVE PrefixFrom(_, _, _, _)
PrefixFrom(r, mp, i, acc) ==
    IF i > 5 THEN acc
    ELSE IF Ranks[i] \in r /\ (mp \/ acc = "")
         THEN PrefixFrom(r, mp, i + 1, acc \o RankSym[Ranks[i]])
         ELSE PrefixFrom(r, mp, i + 1, acc)
Prefix(r, mp) == PrefixFrom(r, mp, 1, "")

Members(ch) == DOMAIN ch.members
Banned(ch, src) == (\E b \in ch.ban : Glob(b, src)) /\ ~(\E e \in ch.exc : Glob(e, src))

(***************************************************************************)
(* LUSERS block (also part of the welcome burst)                           *)
(***************************************************************************)
LusersOut(S, c) ==
    LET nu == Cardinality(DOMAIN S.users) IN
    << Num(S, c, "251", <<NatToStr(nu - S.invCnt), NatToStr(S.invCnt)>>),
       Num(S, c, "252", <<NatToStr(S.operCnt)>>),
       Num(S, c, "253", <<"0">>),
       Num(S, c, "254", <<NatToStr(Cardinality(DOMAIN S.chans))>>),
       Num(S, c, "255", <<NatToStr(nu)>>),
       Num(S, c, "265", <<NatToStr(nu), NatToStr(S.maxUsers)>>),
       Num(S, c, "266", <<NatToStr(nu), NatToStr(S.maxUsers)>>) >>
MotdOut(S, c) ==
    << Num(S, c, "375", <<>>), Num(S, c, "372", <<S.cfg.motd>>), Num(S, c, "376", <<>>) >>
ISupportOut(S, c) == << Num(S, c, "005", <<>>), Num(S, c, "005", <<>>), Num(S, c, "005", <<>>) >>

(***************************************************************************)
(* Teardown: every way a session ends (C06).  Erase is the declarative     *)
(* "leaves no trace": the user disappears from every container keyed by    *)
(* its nickname, counters follow, a WHOWAS record is kept, channels left   *)
(* empty vanish unless preconfigured; nothing else changes.                *)
(***************************************************************************)
RemoveMember(ch, n) ==
    [ch EXCEPT !.members = Del(ch.members, n),
               !.rs = [r \in RankSet |-> ch.rs[r] \ {n}]]

LeaveChannel(S, x, n) ==   \* remove_user_from_channel
    LET S1 == IF x \in DOMAIN S.chans
              THEN LET ch == RemoveMember(S.chans[x], n) IN
                   IF Members(ch) = {} /\ ~ch.preconf
                   THEN [S EXCEPT !.chans = Del(S.chans, x)]
                   ELSE SetChan(S, x, ch)
              ELSE S
    IN IF n \in DOMAIN S1.users
       THEN SetUser(S1, n, [S1.users[n] EXCEPT !.chans = S1.users[n].chans \ {x}])
       ELSE S1

RECURSIVE LeaveAll(_, _, _)
LeaveAll(S, xs, n) ==
    IF xs = {} THEN S
    ELSE LET x == CHOOSE y \in xs : TRUE IN LeaveAll(LeaveChannel(S, x, n), xs \ {x}, n)

HistEntry(u) == [uname |-> u.uname, host |-> u.host, real |-> u.real]
AddWhowas(S, n, e) ==
    [S EXCEPT !.whowas = Upd(S.whowas, n,
        IF n \in DOMAIN S.whowas THEN Append(S.whowas[n], e) ELSE <<e>>)]

Erase(S, n) ==
    LET u == S.users[n]
        S1 == [S EXCEPT !.users = Del(S.users, n),
                        !.operCnt = IF IsOper(u) THEN S.operCnt - 1 ELSE S.operCnt,
                        !.invCnt = IF "i" \in u.modes THEN S.invCnt - 1 ELSE S.invCnt,
                        !.wallops = S.wallops \ {n}]
        S2 == LeaveAll(S1, u.chans, n)
    IN AddWhowas(S2, n, HistEntry(u))

(* the connection's task is over: its user (if it registered one) is erased, *)
(* the connection slot is released                                           *)
Teardown(S, c) ==
    LET k == S.conns[c]
        S1 == IF k.authed /\ k.nick # <<>> /\ k.nick[1] \in DOMAIN S.users
              THEN Erase(S, k.nick[1]) ELSE S
    IN [S1 EXCEPT !.conns = Del(S1.conns, c), !.connCnt = S1.connCnt - 1]

(***************************************************************************)
(* Registration                                                            *)
(***************************************************************************)
UserCfgIdx(S, name) ==   \* the last configured user of that name, 0 if none
    LET I == {i \in DOMAIN S.cfg.users : S.cfg.users[i].name = name} IN
    IF I = {} THEN 0 ELSE CHOOSE i \in I : \A j \in I : j <= i
OperCfgIdx(S, name) ==
    LET I == {i \in DOMAIN S.cfg.operators : S.cfg.operators[i].name = name} IN
    IF I = {} THEN 0 ELSE CHOOSE i \in I : \A j \in I : j <= i

WelcomeOut(S, c, modes) ==
    LET k == S.conns[c] IN
    << Num(S, c, "001", <<S.cfg.network, k.nick[1] \o "!~" \o k.uname[1] \o "@" \o c>>),
       Num(S, c, "002", <<>>), Num(S, c, "003", <<>>), Num(S, c, "004", <<S.cfg.name>>) >>
    \o ISupportOut(S, c) \o LusersOut(S, c) \o MotdOut(S, c)
    \o << Num(S, c, "221", <<UModeStr(modes)>>) >>

Authenticate(S, c) ==
    LET k == S.conns[c] IN
    IF k.capneg \/ k.nick = <<>> \/ k.uname = <<>> THEN Res(S, <<>>)
    ELSE
    LET ui == UserCfgIdx(S, k.uname[1])
        ucfg == S.cfg.users[ui]
        maskBad == ui # 0 /\ ucfg.mask # <<>> /\ ~Glob(ucfg.mask[1], k.src)
        reqpw == IF ui # 0 /\ ucfg.pass # <<>> THEN ucfg.pass ELSE S.cfg.password
        good == reqpw = <<>> \/ (k.pass # <<>> /\ k.pass[1] = reqpw[1])
        n == k.nick[1]
    IN
    IF maskBad THEN Res(S, << Srv(c, "ERROR", <<"invalid">>) >>)
    ELSE IF ~good
    THEN (* wrong or missing password: 464, the connection is closed, no user *)
         LET S1 == SetConn(S, c, [k EXCEPT !.quit = TRUE]) IN
         Res(Teardown(S1, c), << Num(S, c, "464", <<>>), Eof(c) >>)
    ELSE IF n \in DOMAIN S.users
    THEN (* the nickname was taken in the meantime: refused as a NICK naming a used nickname is - *)
         (* the claim is void, nothing else happens                                            *)
         LET k1 == [k EXCEPT !.nick = <<>>]
             S1 == SetConn(S, c, [k1 EXCEPT !.src = SrcOf(k1, c)])
         IN Res(S1, << Num433(c, n) >>)
    ELSE
    LET modes == S.cfg.default_modes \cup (IF ui # 0 THEN {"r"} ELSE {})
        u == [host |-> c, uname |-> k.uname[1], real |-> k.real[1], src |-> k.src,
              modes |-> modes, away |-> <<>>, chans |-> {}, invited |-> {}, killable |-> TRUE]
        k2 == [k EXCEPT !.authed = TRUE, !.cfgreg = (ui # 0), !.hasq = FALSE]
        nu == Cardinality(DOMAIN S.users) + 1
        S1 == [S EXCEPT !.users = Upd(S.users, n, u),
                        !.conns = Upd(S.conns, c, k2),
                        !.invCnt = IF "i" \in modes THEN S.invCnt + 1 ELSE S.invCnt,
                        !.wallops = IF "w" \in modes THEN S.wallops \cup {n} ELSE S.wallops,
                        !.operCnt = IF "o" \in modes \/ "O" \in modes THEN S.operCnt + 1 ELSE S.operCnt,
                        !.maxUsers = IF nu > S.maxUsers THEN nu ELSE S.maxUsers]
    IN Res(S1, WelcomeOut(S1, c, modes))

HCap(S, c, p) ==
    LET k == S.conns[c]
        sub == p[1][1]
    IN
    IF sub = "LS"
    THEN Res(SetConn(S, c, [k EXCEPT !.capneg = TRUE]), << Srv(c, "CAP", <<"*", "LS", "multi-prefix">>) >>)
    ELSE IF sub = "LIST"
    THEN Res(S, << Srv(c, "CAP", <<"*", "LIST", IF k.mp THEN "multi-prefix" ELSE "">>) >>)
    ELSE IF sub = "REQ"
    THEN LET k1 == [k EXCEPT !.capneg = TRUE] IN
         IF Len(p) < 2 THEN Res(SetConn(S, c, k1), <<>>)
         ELSE IF \A i \in DOMAIN p[2] : p[2][i] = "multi-prefix"
         THEN Res(SetConn(S, c, [k1 EXCEPT !.mp = (k.mp \/ Len(p[2]) > 0)]),
                  << Srv(c, "CAP", <<"*", "ACK", JoinWith(p[2], " ")>>) >>)
         ELSE Res(SetConn(S, c, k1), << Srv(c, "CAP", <<"*", "NAK", JoinWith(p[2], " ")>>) >>)
    ELSE (* END *)
         LET S1 == SetConn(S, c, [k EXCEPT !.capneg = FALSE]) IN
         IF ~k.authed THEN Authenticate(S1, c) ELSE Res(S1, <<>>)

HPass(S, c, pw) ==
    LET k == S.conns[c] IN
    IF k.authed THEN Res(S, << Num(S, c, "462", <<>>) >>)
    ELSE Authenticate(SetConn(S, c, [k EXCEPT !.pass = <<pw>>]), c)

HUser(S, c, un, rn) ==
    LET k == S.conns[c] IN
    IF k.authed THEN Res(S, << Num(S, c, "462", <<>>) >>)
    ELSE LET k1 == [k EXCEPT !.uname = <<un>>, !.real = <<rn>>] IN
         Authenticate(SetConn(S, c, [k1 EXCEPT !.src = SrcOf(k1, c)]), c)

(* NICK: claim during registration, or rename of a registered user (C15) *)
RenameIn(ch, old, new) ==
    [ch EXCEPT !.members = [x \in (DOMAIN ch.members \ {old}) \cup {new} |->
                               IF x = new THEN ch.members[old] ELSE ch.members[x]],
               !.rs = [r \in RankSet |-> IF old \in ch.rs[r]
                                         THEN (ch.rs[r] \ {old}) \cup {new} ELSE ch.rs[r]]]

HNick(S, c, n) ==
    LET k == S.conns[c] IN
    IF ~k.authed
    THEN IF n \in DOMAIN S.users THEN Res(S, << Num433(c, n) >>)
         ELSE LET k1 == [k EXCEPT !.nick = <<n>>] IN
              Authenticate(SetConn(S, c, [k1 EXCEPT !.src = SrcOf(k1, c)]), c)
    ELSE
    LET old == k.nick[1] IN
    IF n = old THEN Res(S, <<>>)
    ELSE IF n \in DOMAIN S.users THEN Res(S, << Num433(c, n) >>)
    ELSE
    LET u == S.users[old]
        k1 == [k EXCEPT !.nick = <<n>>]
        k2 == [k1 EXCEPT !.src = SrcOf(k1, c)]
        u2 == [u EXCEPT !.src = k2.src]
        S1 == [S EXCEPT
                 !.users = Upd(Del(S.users, old), n, u2),
                 !.conns = Upd(S.conns, c, k2),
                 !.chans = [x \in DOMAIN S.chans |->
                              IF x \in u.chans THEN RenameIn(S.chans[x], old, n) ELSE S.chans[x]],
                 !.wallops = IF old \in S.wallops THEN (S.wallops \ {old}) \cup {n} ELSE S.wallops]
        S2 == AddWhowas(S1, old, HistEntry(u))
    IN (* DEVIATION: the change is announced to every user, not only to channel peers *)
       Res(S2, MapSet(DOMAIN S2.users, LAMBDA m : Rel(S2.users[m].host, k.src, "NICK", <<n>>)))

HQuit(S, c) ==
    LET S1 == SetConn(S, c, [S.conns[c] EXCEPT !.quit = TRUE]) IN
    Res(Teardown(S1, c), << Srv(c, "ERROR", <<"closing">>), Eof(c) >>)

HOper(S, c, name, pw) ==
    LET oi == OperCfgIdx(S, name)
        ocfg == S.cfg.operators[oi]
        n == NickOf(S, c)
        u == S.users[n]
    IN
    IF oi = 0 THEN Res(S, << Num(S, c, "491", <<>>) >>)
    ELSE IF pw # ocfg.pass THEN Res(S, << Num(S, c, "464", <<>>) >>)
    ELSE IF ocfg.mask # <<>> /\ ~Glob(ocfg.mask[1], S.conns[c].src)
    THEN Res(S, << Num(S, c, "491", <<>>) >>)
    ELSE LET S1 == SetUser(S, n, [u EXCEPT !.modes = u.modes \cup {"o"}]) IN
         Res([S1 EXCEPT !.operCnt = IF IsOper(u) THEN S.operCnt ELSE S.operCnt + 1],
             << Num(S, c, "381", <<>>) >>)

(***************************************************************************)
(* Channels                                                                *)
(***************************************************************************)
FreshChannel(n) ==
    [ members |-> (n :> {"q", "o"}), rs |-> [r \in RankSet |-> IF r \in {"q", "o"} THEN {n} ELSE {}],
      flags |-> {}, key |-> <<>>, limit |-> <<>>, ban |-> {}, exc |-> {}, invex |-> {},
      banwho |-> EmptyFn, topic |-> <<>>, topicby |-> <<>>, preconf |-> FALSE, def |-> EmptyRs ]

AddMember(ch, n) ==   \* Channel::add_user: configured default ranks apply on every join
    LET r == {x \in RankSet : n \in ch.def[x]} IN
    [ch EXCEPT !.members = Upd(ch.members, n, r),
               !.rs = [x \in RankSet |-> IF x \in r THEN ch.rs[x] \cup {n} ELSE ch.rs[x]]]

(* NAMES block for one channel as seen by connection c *)
NamesOut(S, c, x, withEnd) ==
    LET ch == S.chans[x]
        n == NickOf(S, c)
        inch == n \in Members(ch)
        sym == IF "s" \in ch.flags THEN "@" ELSE "="
        vis == {m \in Members(ch) : inch \/ "i" \notin S.users[m].modes}
    IN IF "s" \notin ch.flags \/ inch
       THEN MapSet(vis, LAMBDA m : Num(S, c, "353", <<x, Prefix(ch.members[m], S.conns[c].mp) \o m>>))
            \o (IF withEnd THEN << Num(S, c, "366", <<x>>) >> ELSE <<>>)
       ELSE (* a secret channel is shown to an outsider exactly like a missing one (C12) *)
            (IF withEnd THEN << Num(S, c, "366", <<x>>) >> ELSE <<>>)

(* the admission decision of JOIN for an existing channel, in the words of C07 *)
JoinRefusal(S, c, x, keyopt) ==   \* "" if admissible, else the numeric of the first failing test
    LET ch == S.chans[x]
        k == S.conns[c]
        u == UserOf(S, c)
    IN IF ch.key # <<>> /\ (keyopt = <<>> \/ keyopt[1] # ch.key[1]) THEN "475"
       ELSE IF Banned(ch, k.src) THEN "474"
       ELSE IF "i" \in ch.flags /\ x \notin u.invited /\ ~(\E m \in ch.invex : Glob(m, k.src)) THEN "473"
       ELSE IF ch.limit # <<>> /\ Cardinality(Members(ch)) >= ch.limit[1] THEN "471"
       ELSE ""

HJoin(S, c, chs, keys) ==   \* keys = <<>> when no key parameter was given
    LET n == NickOf(S, c)
        k == S.conns[c]
        joined0 == Cardinality(S.users[n].chans)
        maxj == S.cfg.max_joins
        (* phase 1: decisions against the state before any insertion of this command *)
        Decide(acc, i) ==
            LET x == chs[i]
                exists == x \in DOMAIN S.chans
                refusal == IF exists THEN JoinRefusal(S, c, x, IF keys = <<>> THEN <<>> ELSE <<keys[i]>>) ELSE ""
                join == IF exists THEN refusal = "" /\ n \notin Members(S.chans[x]) ELSE TRUE
                over == maxj # <<>> /\ acc.cnt >= maxj[1]
                doJoin == join /\ ~over
            IN [cnt |-> IF doJoin THEN acc.cnt + 1 ELSE acc.cnt,
                dec |-> Append(acc.dec, [join |-> doJoin, create |-> ~exists]),
                out |-> acc.out \o (IF refusal # "" THEN << Num(S, c, refusal, <<x>>) >> ELSE <<>>)
                               \o (IF over THEN << Num(S, c, "405", <<x>>) >> ELSE <<>>)]
        d == FoldLeft(Decide, [cnt |-> joined0, dec |-> <<>>, out |-> <<>>], [i \in 1..Len(chs) |-> i])
        (* phase 2: insertions *)
        Insert(T, i) ==
            IF ~d.dec[i].join THEN T
            ELSE LET x == chs[i]
                     u == T.users[n]
                     T1 == SetUser(T, n, [u EXCEPT !.chans = u.chans \cup {x}, !.invited = u.invited \ {x}])
                 IN IF d.dec[i].create THEN SetChan(T1, x, FreshChannel(n))
                    ELSE SetChan(T1, x, AddMember(T1.chans[x], n))
        S2 == FoldLeft(Insert, S, [i \in 1..Len(chs) |-> i])
        (* phase 3: messages *)
        Msgs(i) ==
            IF ~d.dec[i].join THEN <<>>
            ELSE LET x == chs[i]
                     ch == S2.chans[x]
                 IN << Rel(c, k.src, "JOIN", <<x>>) >>
                    \o (IF ch.topic # <<>> THEN << Num(S2, c, "332", <<x, ch.topic[1]>>) >> ELSE <<>>)
                    \o NamesOut(S2, c, x, TRUE)
                    \o MapSet(Members(ch) \ {n}, LAMBDA m : Rel(S2.users[m].host, k.src, "JOIN", <<x>>))
    IN Res(S2, d.out \o Flat([i \in 1..Len(chs) |-> Msgs(i)]))

HPart(S, c, chs, reason) ==   \* reason = <<>> or <<text>>
    LET n == NickOf(S, c)
        k == S.conns[c]
        Step(acc, x) ==
            LET T == acc.st IN
            IF x \notin DOMAIN T.chans THEN [st |-> T, out |-> acc.out \o << Num(S, c, "403", <<x>>) >>]
            ELSE IF n \notin Members(T.chans[x]) THEN [st |-> T, out |-> acc.out \o << Num(S, c, "442", <<x>>) >>]
            ELSE [st |-> LeaveChannel(T, x, n),
                  out |-> acc.out \o MapSet(Members(T.chans[x]),
                              LAMBDA m : Rel(T.users[m].host, k.src, "PART", <<x>> \o reason))]
    IN FoldLeft(Step, Res(S, <<>>), chs)

HTopic(S, c, x, topic) ==   \* topic = <<>> (query) or <<text>>
    LET n == NickOf(S, c)
        k == S.conns[c]
    IN
    IF x \notin DOMAIN S.chans THEN Res(S, << Num(S, c, "403", <<x>>) >>)
    ELSE LET ch == S.chans[x] IN
    IF n \notin Members(ch) THEN Res(S, << Num(S, c, "442", <<x>>) >>)
    ELSE IF topic = <<>>
    THEN IF ch.topic # <<>>
         THEN Res(S, << Num(S, c, "332", <<x, ch.topic[1]>>), Num(S, c, "333", <<x, ch.topicby[1]>>) >>)
         ELSE Res(S, << Num(S, c, "331", <<x>>) >>)
    ELSE IF "t" \in ch.flags /\ ~RkHalfOp(ch.members[n]) THEN Res(S, << Num(S, c, "482", <<x>>) >>)
    ELSE LET ch2 == IF topic[1] = "" THEN [ch EXCEPT !.topic = <<>>, !.topicby = <<>>]
                    ELSE [ch EXCEPT !.topic = topic, !.topicby = <<n>>]
         IN Res(SetChan(S, x, ch2),
                MapSet(Members(ch), LAMBDA m : Rel(S.users[m].host, k.src, "TOPIC", <<x, topic[1]>>)))

HNames(S, c, chs) ==
    IF chs # <<>>
    THEN Flat([i \in 1..Len(chs) |->
              IF chs[i] \in DOMAIN S.chans THEN NamesOut(S, c, chs[i], TRUE)
              ELSE << Num(S, c, "366", <<chs[i]>>) >>])
    ELSE Flat(MapSet(DOMAIN S.chans, LAMBDA x : NamesOut(S, c, x, FALSE))) \o << Num(S, c, "366", <<"*">>) >>

ListLine(S, c, x) ==
    LET ch == S.chans[x] IN
    Num(S, c, "322", <<x, NatToStr(Cardinality(Members(ch))), IF ch.topic # <<>> THEN ch.topic[1] ELSE "">>)
HList(S, c, chs, server) ==
    IF server # <<>> THEN << Num(S, c, "400", <<"LIST">>) >>
    ELSE << Num(S, c, "321", <<>>) >>
         \o (IF chs # <<>>
             THEN Flat([i \in 1..Len(chs) |->
                    IF chs[i] \in DOMAIN S.chans /\ "s" \notin S.chans[chs[i]].flags
                    THEN << ListLine(S, c, chs[i]) >> ELSE <<>>])
             ELSE MapSet({x \in DOMAIN S.chans : "s" \notin S.chans[x].flags}, LAMBDA x : ListLine(S, c, x)))
         \o << Num(S, c, "323", <<>>) >>

HInvite(S, c, who, x) ==
    LET n == NickOf(S, c)
        k == S.conns[c]
    IN
    IF x \notin DOMAIN S.chans THEN Res(S, << Num(S, c, "403", <<x>>) >>)
    ELSE LET ch == S.chans[x] IN
    IF n \notin Members(ch) THEN Res(S, << Num(S, c, "442", <<x>>) >>)
    ELSE IF "i" \in ch.flags /\ "o" \notin ch.members[n] THEN Res(S, << Num(S, c, "482", <<x>>) >>)
    ELSE IF who \in Members(ch) THEN Res(S, << Num(S, c, "443", <<who, x>>) >>)
    ELSE IF who \notin DOMAIN S.users THEN Res(S, << Num(S, c, "401", <<who>>) >>)
    ELSE LET u == S.users[who] IN
         Res(SetUser(S, who, [u EXCEPT !.invited = u.invited \cup {x}]),
             << Num(S, c, "341", <<who, x>>), Rel(u.host, k.src, "INVITE", <<who, x>>) >>)

HKick(S, c, x, victims, comment) ==   \* comment = <<>> or <<text>>
    LET n == NickOf(S, c)
        k == S.conns[c]
    IN
    IF x \notin DOMAIN S.chans THEN Res(S, << Num(S, c, "403", <<x>>) >>)
    ELSE LET ch == S.chans[x] IN
    IF n \notin Members(ch) THEN Res(S, << Num(S, c, "442", <<x>>) >>)
    ELSE IF ~RkHalfOp(ch.members[n]) THEN Res(S, << Num(S, c, "482", <<x>>) >>)
    ELSE
    LET onlyHalf == RkOnlyHalfOp(ch.members[n])
        Check(acc, v) ==
            IF v \in ToSet(acc.kicked) THEN acc      \* a repeated name is kicked once
            ELSE IF v \notin Members(ch) THEN [acc EXCEPT !.out = acc.out \o << Num(S, c, "441", <<v, x>>) >>]
            ELSE IF RkProtected(ch.members[v]) \/ (RkHalfOp(ch.members[v]) /\ onlyHalf)
                 THEN [acc EXCEPT !.out = acc.out \o << Num(S, c, "972", <<>>) >>]
            ELSE [acc EXCEPT !.kicked = Append(acc.kicked, v)]
        d == FoldLeft(Check, [kicked |-> <<>>, out |-> <<>>], victims)
        S2 == FoldLeft(LAMBDA T, v : LeaveChannel(T, x, v), S, d.kicked)
        remaining == IF x \in DOMAIN S2.chans THEN Members(S2.chans[x]) ELSE {}
        text == IF comment = <<>> THEN "Kicked" ELSE comment[1]
        Msgs(v) == MapSet(remaining \cup {v}, LAMBDA m : Rel(S2.users[m].host, k.src, "KICK", <<x, v, text>>))
    IN Res(S2, d.out \o Flat([i \in 1..Len(d.kicked) |-> Msgs(d.kicked[i])]))

(***************************************************************************)
(* MODE                                                                    *)
(***************************************************************************)
(* privilege table of C08: what an actor's ranks must be to change a letter *)
MayChange(r, letter) ==
    CASE letter = "q" -> "q" \in r
      [] letter = "a" -> RkProtected(r)
      [] letter \in {"o", "h"} -> RkOperator(r)
      [] OTHER -> RkHalfOp(r)      \* v b e I k l i m t n s

ChanModeWord(ch) ==
    "+" \o (IF "i" \in ch.flags THEN "i" ELSE "") \o (IF "m" \in ch.flags THEN "m" ELSE "") \o
    (IF "s" \in ch.flags THEN "s" ELSE "") \o (IF "t" \in ch.flags THEN "t" ELSE "") \o
    (IF "n" \in ch.flags THEN "n" ELSE "") \o (IF ch.key # <<>> THEN "k" ELSE "") \o
    (IF ch.limit # <<>> THEN "l" ELSE "")

ChanModeIsOut(S, c, x) ==
    LET ch == S.chans[x]
        Items(set, sym) == MapSet(set, LAMBDA m : Num(S, c, "324i", <<x, sym, m>>))
    IN << Num(S, c, "324", <<x, ChanModeWord(ch)>>
                   \o (IF ch.key # <<>> THEN <<ch.key[1]>> ELSE <<>>)
                   \o (IF ch.limit # <<>> THEN <<NatToStr(ch.limit[1])>> ELSE <<>>)) >>
       \o Items(ch.ban, "+b") \o Items(ch.exc, "+e") \o Items(ch.invex, "+I")
       \o Items(ch.rs["q"], "+q") \o Items(ch.rs["a"], "+a") \o Items(ch.rs["o"], "+o")
       \o Items(ch.rs["h"], "+h") \o Items(ch.rs["v"], "+v")
       \o << Num(S, c, "329", <<x>>) >>

(* one mode letter applied to the channel; acc = [ch, ai (next argument index), set, unset, *)
(* params (announced parameter words), out]                                                 *)
ModeLetter(S, c, x, r, nick, acc, ltr, sign, args) ==
    LET ch == acc.ch
        may == MayChange(r, ltr)
        hasArg == acc.ai <= Len(args)
        arg == args[acc.ai]
        denied == IF ltr \in {"q", "a", "o", "h", "i", "m", "t", "n", "s", "l", "k", "v"} /\ ~may
                  THEN << Num(S, c, "482", <<x>>) >> ELSE <<>>
        a0 == [acc EXCEPT !.out = acc.out \o denied]
        sgn == IF sign THEN "+" ELSE "-"
    IN
    IF ltr \in {"b", "e", "I"}
    THEN LET fld == IF ltr = "b" THEN "ban" ELSE IF ltr = "e" THEN "exc" ELSE "invex" IN
         IF hasArg
         THEN IF may
              THEN LET m == Normalize(arg)
                       set2 == IF sign THEN ch[fld] \cup {m} ELSE ch[fld] \ {m}
                       ch1 == [ch EXCEPT ![fld] = set2]
                       ch2 == IF ltr = "b"
                              THEN [ch1 EXCEPT !.banwho = IF sign THEN Upd(ch.banwho, m, nick) ELSE Del(ch.banwho, m)]
                              ELSE ch1
                   IN [a0 EXCEPT !.ch = ch2, !.ai = acc.ai + 1, !.params = acc.params \o <<sgn \o ltr, m>>]
              ELSE [a0 EXCEPT !.ai = acc.ai + 1, !.out = a0.out \o << Num(S, c, "482", <<x>>) >>]
         ELSE (* no argument: the list is shown to any member *)
              LET codes == IF ltr = "b" THEN <<"367", "368">> ELSE IF ltr = "e" THEN <<"348", "349">> ELSE <<"346", "347">>
                  lines == IF ltr = "b"
                           THEN MapSet(ch.ban, LAMBDA m : Num(S, c, "367",
                                   <<x, m, IF m \in DOMAIN ch.banwho THEN ch.banwho[m] ELSE "">>))
                           ELSE MapSet(ch[fld], LAMBDA m : Num(S, c, codes[1], <<x, m>>))
              IN [a0 EXCEPT !.out = a0.out \o lines \o << Num(S, c, codes[2], <<x>>) >>]
    ELSE IF ltr \in RankSet
    THEN (* the parser guarantees an argument *)
         IF arg \in Members(ch)
         THEN IF may
              THEN LET mem2 == IF sign THEN ch.members[arg] \cup {ltr} ELSE ch.members[arg] \ {ltr}
                       ch2 == [ch EXCEPT !.members = Upd(ch.members, arg, mem2),
                                         !.rs = [y \in RankSet |-> IF y = ltr
                                                    THEN (IF sign THEN ch.rs[y] \cup {arg} ELSE ch.rs[y] \ {arg})
                                                    ELSE ch.rs[y]]]
                   IN [a0 EXCEPT !.ch = ch2, !.ai = acc.ai + 1, !.params = acc.params \o <<sgn \o ltr, arg>>]
              ELSE [a0 EXCEPT !.ai = acc.ai + 1]
         ELSE [a0 EXCEPT !.ai = acc.ai + 1, !.out = a0.out \o << Num(S, c, "441", <<arg, x>>) >>]
    ELSE IF ltr = "l"
    THEN IF ~may THEN a0     \* DEVIATION: a refused +l does not consume its argument
         ELSE IF sign THEN [a0 EXCEPT !.ch = [ch EXCEPT !.limit = <<StrToNat(arg)>>], !.ai = acc.ai + 1,
                                      !.params = acc.params \o <<"+l", arg>>]
         ELSE [a0 EXCEPT !.ch = [ch EXCEPT !.limit = <<>>], !.unset = acc.unset \o "l"]
    ELSE IF ltr = "k"
    THEN IF ~may THEN a0
         ELSE IF sign THEN [a0 EXCEPT !.ch = [ch EXCEPT !.key = <<arg>>], !.ai = acc.ai + 1,
                                      !.params = acc.params \o <<"+k", arg>>]
         ELSE [a0 EXCEPT !.ch = [ch EXCEPT !.key = <<>>], !.unset = acc.unset \o "k"]
    ELSE (* i m t n s *)
         IF ~may THEN a0
         ELSE IF sign THEN [a0 EXCEPT !.ch = [ch EXCEPT !.flags = ch.flags \cup {ltr}], !.set = acc.set \o ltr]
         ELSE [a0 EXCEPT !.ch = [ch EXCEPT !.flags = ch.flags \ {ltr}], !.unset = acc.unset \o ltr]

(* one group = mode string + its arguments; the sign starts as "-" in every group *)
RECURSIVE ModeGroupAt(_, _, _, _, _, _, _, _, _)
ModeGroupAt(S, c, x, r, nick, acc, grp, i, sign) ==
    LET ms == grp[1] IN
    IF i > Len(ms) THEN acc
    ELSE LET ch == Chr(ms, i) IN
         IF ch = "+" THEN ModeGroupAt(S, c, x, r, nick, acc, grp, i + 1, TRUE)
         ELSE IF ch = "-" THEN ModeGroupAt(S, c, x, r, nick, acc, grp, i + 1, FALSE)
         ELSE ModeGroupAt(S, c, x, r, nick, ModeLetter(S, c, x, r, nick, acc, ch, sign, Tail(grp)), grp, i + 1, sign)

HModeChan(S, c, x, groups) ==
    LET n == NickOf(S, c)
        k == S.conns[c]
    IN
    IF x \notin DOMAIN S.chans THEN Res(S, << Num(S, c, "403", <<x>>) >>)
    ELSE LET ch == S.chans[x] IN
    IF n \notin Members(ch) THEN Res(S, << Num(S, c, "442", <<x>>) >>)
    ELSE IF groups = <<>> THEN Res(S, ChanModeIsOut(S, c, x))
    ELSE
    LET r == ch.members[n]
        Grp(acc, g) == ModeGroupAt(S, c, x, r, n, [acc EXCEPT !.ai = 1], g, 1, FALSE)
        d == FoldLeft(Grp, [ch |-> ch, ai |-> 1, set |-> "", unset |-> "", params |-> <<>>, out |-> <<>>], groups)
        word == (IF d.set # "" THEN "+" \o d.set ELSE "") \o (IF d.unset # "" THEN "-" \o d.unset ELSE "")
        announce == d.set # "" \/ d.unset # "" \/ d.params # <<>>
        a == <<x>> \o (IF word # "" THEN <<word>> ELSE <<>>) \o d.params
    IN Res(SetChan(S, x, d.ch),
           d.out \o (IF announce
                     THEN MapSet(Members(d.ch), LAMBDA m : Rel(S.users[m].host, k.src, "MODE", a))
                     ELSE <<>>))

(* user modes (own nick only).  Operator status is never conferred here (C11). *)
UModeLetter(S, c, acc, ltr, sign) ==
    LET u == acc.u
        has == ltr \in u.modes
    IN
    IF ltr = "i"
    THEN IF sign /\ ~has THEN [acc EXCEPT !.u.modes = u.modes \cup {"i"}, !.inv = acc.inv + 1, !.set = acc.set \o "i"]
         ELSE IF ~sign /\ has THEN [acc EXCEPT !.u.modes = u.modes \ {"i"}, !.inv = acc.inv - 1, !.unset = acc.unset \o "i"]
         ELSE acc
    ELSE IF ltr = "r"
    THEN IF sign /\ ~has
         THEN IF S.conns[c].cfgreg THEN [acc EXCEPT !.u.modes = u.modes \cup {"r"}, !.set = acc.set \o "r"]
              ELSE [acc EXCEPT !.out = acc.out \o << Num(S, c, "481", <<>>) >>]
         ELSE IF ~sign /\ has
         THEN [acc EXCEPT !.u.modes = u.modes \ {"r"}, !.unset = acc.unset \o "r",
                          !.out = acc.out \o << Num(S, c, "484", <<>>) >>]
         ELSE acc
    ELSE IF ltr = "w"
    THEN IF sign /\ ~has THEN [acc EXCEPT !.u.modes = u.modes \cup {"w"}, !.wall = TRUE, !.set = acc.set \o "w"]
         ELSE IF ~sign /\ has THEN [acc EXCEPT !.u.modes = u.modes \ {"w"}, !.wall = FALSE, !.unset = acc.unset \o "w"]
         ELSE acc
    ELSE (* o, O *)
         LET other == IF ltr = "o" THEN "O" ELSE "o" IN
         IF sign
         THEN IF has THEN acc ELSE [acc EXCEPT !.out = acc.out \o << Num(S, c, "481", <<>>) >>]
         ELSE IF has
              THEN IF other \in u.modes
                   THEN [acc EXCEPT !.u.modes = u.modes \ {ltr}]     \* DEVIATION: not echoed
                   ELSE [acc EXCEPT !.u.modes = u.modes \ {ltr}, !.oper = acc.oper - 1, !.unset = acc.unset \o ltr]
              ELSE IF ltr = "O" /\ "o" \in u.modes
              THEN (* DEVIATION: -O from a user holding only +o drops +o (upstream behaviour) *)
                   [acc EXCEPT !.u.modes = u.modes \ {"o"}, !.oper = acc.oper - 1, !.unset = acc.unset \o "O"]
              ELSE acc

RECURSIVE UModeGroupAt(_, _, _, _, _, _)
UModeGroupAt(S, c, acc, ms, i, sign) ==
    IF i > Len(ms) THEN acc
    ELSE LET ch == Chr(ms, i) IN
         IF ch = "+" THEN UModeGroupAt(S, c, acc, ms, i + 1, TRUE)
         ELSE IF ch = "-" THEN UModeGroupAt(S, c, acc, ms, i + 1, FALSE)
         ELSE UModeGroupAt(S, c, UModeLetter(S, c, acc, ch, sign), ms, i + 1, sign)

HModeUser(S, c, target, groups) ==
    LET n == NickOf(S, c)
        k == S.conns[c]
    IN
    IF target # n
    THEN IF target \in DOMAIN S.users THEN Res(S, << Num(S, c, "502", <<>>) >>)
         ELSE Res(S, << Num(S, c, "401", <<target>>) >>)
    ELSE IF groups = <<>> THEN Res(S, << Num(S, c, "221", <<UModeStr(S.users[n].modes)>>) >>)
    ELSE
    LET d == FoldLeft(LAMBDA acc, g : UModeGroupAt(S, c, acc, g[1], 1, FALSE),
                      [u |-> S.users[n], inv |-> S.invCnt, oper |-> S.operCnt,
                       wall |-> n \in S.wallops, set |-> "", unset |-> "", out |-> <<>>], groups)
        word == (IF d.set # "" THEN "+" \o d.set ELSE "") \o (IF d.unset # "" THEN "-" \o d.unset ELSE "")
        S1 == [SetUser(S, n, d.u) EXCEPT !.invCnt = d.inv, !.operCnt = d.oper,
                      !.wallops = IF d.wall THEN S.wallops \cup {n} ELSE S.wallops \ {n}]
    IN Res(S1, d.out \o (IF word # "" THEN << Rel(c, k.src, "MODE", <<n, word>>) >> ELSE <<>>))

(***************************************************************************)
(* PRIVMSG / NOTICE                                                        *)
(***************************************************************************)
(* a target is a nickname, or a channel name preceded by status prefixes    *)
PrefixChars == {"~", "&", "@", "%", "+"}
RECURSIVE TargetScan(_, _, _, _, _)
(* mirrors the server's target classification: returns [chan, ranks] with chan = "" for a nick *)
TargetScan(t, i, ranks, lastAmp, ampCnt) ==
    IF i > Len(t) THEN [chan |-> "", ranks |-> ranks, ischan |-> TRUE]   \* only prefix characters
    ELSE LET ch == Chr(t, i) IN
         IF ch = "#"
         THEN IF i < Len(t) THEN [chan |-> Drop(t, i - 1), ranks |-> ranks, ischan |-> TRUE]
              ELSE [chan |-> "", ranks |-> {}, ischan |-> FALSE]
         ELSE IF ch \in {"~", "@", "%", "+"}
         THEN TargetScan(t, i + 1, ranks \cup {SymRank[ch]}, FALSE, ampCnt)
         ELSE IF ch = "&"
         THEN IF i < Len(t) THEN TargetScan(t, i + 1, ranks \cup {"a"}, TRUE, ampCnt + 1)
              ELSE [chan |-> "", ranks |-> {}, ischan |-> FALSE]
         ELSE IF lastAmp
              THEN [chan |-> Drop(t, i - 2), ranks |-> IF ampCnt < 2 THEN ranks \ {"a"} ELSE ranks, ischan |-> TRUE]
              ELSE [chan |-> "", ranks |-> {}, ischan |-> FALSE]
Target(t) == TargetScan(t, 1, {}, FALSE, 0)

(* C10: who may speak into a channel *)
MaySpeak(S, c, x) ==
    LET ch == S.chans[x]
        n == NickOf(S, c)
        member == n \in Members(ch)
    IN /\ (member \/ ("n" \notin ch.flags /\ "s" \notin ch.flags))
       /\ ~Banned(ch, S.conns[c].src)
       /\ ("m" \notin ch.flags \/ (member /\ RkVoice(ch.members[n])))

(* C01: the audience of an accepted target *)
Audience(S, c, t) ==
    LET tg == Target(t)
        n == NickOf(S, c)
    IN IF tg.ischan
       THEN LET ch == S.chans[tg.chan] IN
            IF tg.ranks = {} THEN Members(ch) \ {n}
            ELSE {m \in Members(ch) \ {n} : ch.members[m] \cap tg.ranks # {}}
       ELSE {t}

HMsg(S, c, verb, targets, text) ==
    LET k == S.conns[c]
        notice == verb = "NOTICE"
        One(t) ==
            LET tg == Target(t) IN
            IF tg.ischan
            THEN IF tg.chan \notin DOMAIN S.chans
                 THEN IF notice THEN <<>> ELSE << Num(S, c, "403", <<tg.chan>>) >>
                 ELSE IF ~MaySpeak(S, c, tg.chan)
                 THEN IF notice THEN <<>> ELSE << Num(S, c, "404", <<tg.chan>>) >>
                 ELSE MapSet(Audience(S, c, t), LAMBDA m : Rel(S.users[m].host, k.src, verb, <<t, text>>))
            ELSE IF t \notin DOMAIN S.users
                 THEN IF notice THEN <<>> ELSE << Num(S, c, "401", <<t>>) >>
                 ELSE << Rel(S.users[t].host, k.src, verb, <<t, text>>) >>
                      \o (IF ~notice /\ S.users[t].away # <<>>
                          THEN << Num(S, c, "301", <<t, S.users[t].away[1]>>) >> ELSE <<>>)
    IN Flat(MapSet(ToSet(targets), One))    \* duplicate targets count once

(***************************************************************************)
(* WHO / WHOIS / WHOWAS / USERHOST / ISON / LUSERS and the rest            *)
(***************************************************************************)
Shares(S, a, b) == S.users[a].chans \cap S.users[b].chans # {}
VisibleTo(S, asker, n) == "i" \notin S.users[n].modes \/ Shares(S, asker, n)

WhoLine(S, c, x, n) ==   \* x = "*" or the channel the query named
    LET u == S.users[n]
        flags == (IF u.away # <<>> THEN "G" ELSE "H") \o (IF IsOper(u) THEN "*" ELSE "")
                 \o (IF x # "*" THEN Prefix(S.chans[x].members[n], S.conns[c].mp) ELSE "")
    IN Num(S, c, "352", <<x, "~" \o u.uname, u.host, n, flags, u.real>>)

HWho(S, c, mask) ==
    LET me == NickOf(S, c)
        body ==
          IF HasWild(mask)
          THEN MapSet({n \in DOMAIN S.users : VisibleTo(S, me, n) /\
                          (Glob(mask, n) \/ Glob(mask, S.users[n].src) \/ Glob(mask, S.users[n].real))},
                      LAMBDA n : WhoLine(S, c, "*", n))
          ELSE IF ValidChannel(mask)
          THEN IF mask \in DOMAIN S.chans /\ ("s" \notin S.chans[mask].flags \/ me \in Members(S.chans[mask]))
               THEN MapSet({n \in Members(S.chans[mask]) : VisibleTo(S, me, n)}, LAMBDA n : WhoLine(S, c, mask, n))
               ELSE <<>>      \* a secret channel answers an outsider like a missing one (C12)
          ELSE IF ValidUserName(mask) /\ mask \in DOMAIN S.users /\ VisibleTo(S, me, mask)
          THEN << WhoLine(S, c, "*", mask) >>
          ELSE <<>>
    IN body \o << Num(S, c, "315", <<mask>>) >>

WhoisBlock(S, c, n) ==
    LET u == S.users[n] IN
    (IF "r" \in u.modes THEN << Num(S, c, "307", <<n>>) >> ELSE <<>>)
    \o << Num(S, c, "311", <<n, "~" \o u.uname, u.host, u.real>>), Num(S, c, "312", <<n, S.cfg.name>>) >>
    \o (IF IsOper(u) THEN << Num(S, c, "313", <<n>>) >> ELSE <<>>)
    \o MapSet({x \in u.chans : "s" \notin S.chans[x].flags},
              LAMBDA x : Num(S, c, "319", <<n, Prefix(S.chans[x].members[n], S.conns[c].mp) \o x>>))
    \o << Num(S, c, "317", <<n>>) >>
    \o (IF IsOper(u) THEN << Num(S, c, "378", <<n>>), Num(S, c, "379", <<n>>) >> ELSE <<>>)
    \o (IF S.cfg.tls THEN << Num(S, c, "671", <<n>>) >> ELSE <<>>)

HWhois(S, c, server, masks) ==
    IF server # <<>> THEN << Num(S, c, "400", <<"WHOIS">>) >>
    ELSE
    LET me == NickOf(S, c)
        M == ToSet(masks)
        nicks == {n \in DOMAIN S.users :
                     (n \in M /\ ~HasWild(n)) \/ (\E m \in M : HasWild(m) /\ Glob(m, n))}
    IN Flat(MapSet({n \in nicks : VisibleTo(S, me, n)}, LAMBDA n : WhoisBlock(S, c, n)))
       \o << Num(S, c, "318", <<JoinWith(masks, ",")>>) >>

HWhowas(S, c, n, count, server) ==   \* count, server: <<>> or <<x>>
    IF server # <<>> THEN << Num(S, c, "400", <<"WHOWAS">>) >>
    ELSE (IF n \in DOMAIN S.whowas
          THEN LET h == Reverse(S.whowas[n])
                   cnt == IF count = <<>> \/ StrToNat(count[1]) = 0 THEN Len(h)
                          ELSE IF StrToNat(count[1]) < Len(h) THEN StrToNat(count[1]) ELSE Len(h)
               IN Flat([i \in 1..cnt |->
                     << Num(S, c, "314", <<n, "~" \o h[i].uname, h[i].host, h[i].real>>),
                        Num(S, c, "312", <<n, S.cfg.name>>) >>])
          ELSE << Num(S, c, "406", <<n>>) >>)
         \o << Num(S, c, "369", <<n>>) >>

Chunks20(q) == IF Len(q) = 0 THEN 0 ELSE ((Len(q) - 1) \div 20) + 1
HUserhost(S, c, nicks) ==
    [i \in 1..Chunks20(nicks) |-> Num(S, c, "302", <<>>)]
    \o Flat([i \in 1..Len(nicks) |->
         IF nicks[i] \in DOMAIN S.users
         THEN LET u == S.users[nicks[i]] IN
              << Num(S, c, "302i", << nicks[i] \o (IF IsOper(u) THEN "*" ELSE "") \o "="
                     \o (IF u.away # <<>> THEN "-" ELSE "+") \o "~" \o u.uname \o "@" \o u.host >>) >>
         ELSE <<>>])
HIson(S, c, nicks) ==
    [i \in 1..Chunks20(nicks) |-> Num(S, c, "303", <<>>)]
    \o Flat([i \in 1..Len(nicks) |->
         IF nicks[i] \in DOMAIN S.users THEN << Num(S, c, "303i", <<nicks[i]>>) >> ELSE <<>>])

HAway(S, c, text) ==
    LET n == NickOf(S, c) IN
    Res(SetUser(S, n, [S.users[n] EXCEPT !.away = text]),
        << Num(S, c, IF text = <<>> THEN "305" ELSE "306", <<>>) >>)

HWallops(S, c, text) ==
    IF ~IsOper(UserOf(S, c)) THEN << Num(S, c, "481", <<>>) >>
    ELSE MapSet(S.wallops, LAMBDA m : Rel(S.users[m].host, S.conns[c].src, "WALLOPS", <<text>>))

(* KILL / DIE / SQUIT: the victims are told who did it and are torn down *)
KillOut(v, killer, comment) == << Srv(v, "ERROR", <<"killed", killer, comment>>), Eof(v) >>
HKill(S, c, victim, comment) ==
    LET n == NickOf(S, c) IN
    IF "o" \notin S.users[n].modes THEN Res(S, << Num(S, c, "481", <<>>) >>)
    ELSE IF victim \notin DOMAIN S.users THEN Res(S, << Num(S, c, "401", <<victim>>) >>)
    ELSE LET vc == S.users[victim].host IN
         IF S.conns[vc].stalled
         THEN (* the victim's task is blocked writing to a client that does not read: the signal stays *)
              (* pending (a second KILL finds none to send); the session ends when the socket does    *)
              Res(SetUser(S, victim, [S.users[victim] EXCEPT !.killable = FALSE]), <<>>)
         ELSE Res(Teardown(S, vc), KillOut(vc, n, comment))

RECURSIVE TeardownAll(_, _)
TeardownAll(S, cs) ==
    IF cs = {} THEN S ELSE LET x == CHOOSE y \in cs : TRUE IN TeardownAll(Teardown(S, x), cs \ {x})
HDie(S, c, msg) ==
    LET n == NickOf(S, c) IN
    IF "o" \notin S.users[n].modes THEN Res(S, << Num(S, c, "483", <<>>) >>)
    ELSE LET victims == {S.users[m].host : m \in {u \in DOMAIN S.users : ~S.conns[S.users[u].host].stalled}}
             S1 == [S EXCEPT !.users = [u \in DOMAIN S.users |-> [S.users[u] EXCEPT !.killable = FALSE]]]
         IN Res([TeardownAll(S1, victims) EXCEPT !.up = FALSE],
                Flat(MapSet(victims, LAMBDA v : KillOut(v, n, msg))))

HStats(S, c, q, server) ==
    IF server # <<>> THEN << Num(S, c, "400", <<"STATS">>) >>
    ELSE IF ~IsOper(UserOf(S, c)) THEN << Num(S, c, "481", <<>>) >>
    ELSE (IF q = "u" THEN << Num(S, c, "242", <<>>) >> ELSE <<>>) \o << Num(S, c, "219", <<q>>) >>

HHelp(S, c, subject) ==
    LET s == IF subject = <<>> THEN "MAIN" ELSE subject[1] IN
    IF s \in {"MAIN", "COMMANDS"} THEN << Num(S, c, "704", <<s>>), Num(S, c, "706", <<s>>) >>
    ELSE << Num(S, c, "524", <<s>>) >>

HAdmin(S, c) ==
    << Num(S, c, "256", <<S.cfg.name>>), Num(S, c, "257", <<S.cfg.admin_info>>) >>
    \o (IF S.cfg.admin_info2 # <<>> THEN << Num(S, c, "258", <<S.cfg.admin_info2[1]>>) >> ELSE <<>>)
    \o (IF S.cfg.admin_email # <<>> THEN << Num(S, c, "259", <<S.cfg.admin_email[1]>>) >> ELSE <<>>)

(***************************************************************************)
(* Parameter validation (what the command parser refuses before any        *)
(* handler runs).  A command is [verb, p] with p the parameter groups.     *)
(* Result: <<>> if acceptable, else the one error reply.                   *)
(***************************************************************************)
Err(kind, a) == <<[kind |-> kind, a |-> a]>>
NeedMore(verb) == Err("461", <<verb>>)
WrongParam == Err("wrongparam", <<>>)

RECURSIVE ScanChanModes(_, _, _, _, _, _)
ScanChanModes(x, ms, i, sign, args, ai) ==
    IF i > Len(ms) THEN <<>>
    ELSE LET ch == Chr(ms, i)
             has == ai <= Len(args)
         IN
         IF ch = "+" THEN ScanChanModes(x, ms, i + 1, TRUE, args, ai)
         ELSE IF ch = "-" THEN ScanChanModes(x, ms, i + 1, FALSE, args, ai)
         ELSE IF ch \in {"b", "e", "I"} THEN ScanChanModes(x, ms, i + 1, sign, args, IF has THEN ai + 1 ELSE ai)
         ELSE IF ch \in RankSet
         THEN IF ~has THEN Err("696", <<x, ch>>)
              ELSE IF ~ValidUserName(args[ai]) THEN Err("696", <<x, ch, args[ai]>>)
              ELSE ScanChanModes(x, ms, i + 1, sign, args, ai + 1)
         ELSE IF ch = "l"
         THEN IF sign THEN IF ~has THEN Err("696", <<x, ch>>)
                           ELSE IF ~IsDigits(args[ai]) THEN Err("696", <<x, ch, args[ai]>>)
                           ELSE ScanChanModes(x, ms, i + 1, sign, args, ai + 1)
              ELSE IF has THEN Err("696", <<x, ch, args[ai]>>) ELSE ScanChanModes(x, ms, i + 1, sign, args, ai)
         ELSE IF ch = "k"
         THEN IF sign THEN IF ~has THEN Err("696", <<x, ch>>) ELSE ScanChanModes(x, ms, i + 1, sign, args, ai + 1)
              ELSE IF has THEN Err("696", <<x, ch, args[ai]>>) ELSE ScanChanModes(x, ms, i + 1, sign, args, ai)
         ELSE IF ch \in {"i", "m", "t", "n", "s"} THEN ScanChanModes(x, ms, i + 1, sign, args, ai)
         ELSE Err("472", <<ch>>)

RECURSIVE ValidateGroups(_, _, _)
ValidateGroups(x, groups, chan) ==
    IF groups = <<>> THEN <<>>
    ELSE LET g == groups[1]
             e == IF chan THEN ScanChanModes(x, g[1], 1, FALSE, Tail(g), 1)
                  ELSE IF \E i \in 1..Len(g[1]) : Chr(g[1], i) \notin {"+", "-", "i", "o", "O", "r", "w"}
                       THEN Err("501", <<>>)
                       ELSE IF Len(g) > 1 THEN WrongParam ELSE <<>>
         IN IF e # <<>> THEN e ELSE ValidateGroups(x, Tail(groups), chan)

AllSeq(q, T(_)) == \A i \in DOMAIN q : T(q[i])
ValidTarget(t) == ValidUserName(t) \/ (~HasChr(t, ":") /\ ~HasChr(t, ",") /\ Len(t) > 0 /\
                                       LET tg == Target(t) IN tg.ischan /\ tg.chan # "")
Opt1(p, i) == IF Len(p) >= i /\ Len(p[i]) >= 1 THEN <<p[i][1]>> ELSE <<>>
Has(p, i) == Len(p) >= i /\ Len(p[i]) >= 1

KnownVerbs == {"CAP", "AUTHENTICATE", "PASS", "NICK", "USER", "PING", "PONG", "OPER", "QUIT", "JOIN",
    "PART", "TOPIC", "NAMES", "LIST", "INVITE", "KICK", "MOTD", "VERSION", "ADMIN", "CONNECT", "LUSERS",
    "TIME", "STATS", "LINKS", "HELP", "INFO", "MODE", "PRIVMSG", "NOTICE", "WHO", "WHOIS", "WHOWAS",
    "KILL", "REHASH", "RESTART", "SQUIT", "AWAY", "USERHOST", "WALLOPS", "ISON", "DIE"}
PreRegVerbs == {"CAP", "AUTHENTICATE", "PASS", "NICK", "USER", "QUIT"}

Validate(cmd) ==
    LET v == cmd.verb
        p == cmd.p
    IN
    IF v \notin KnownVerbs THEN Err("421", <<v>>)
    ELSE IF v = "CAP"
    THEN IF ~Has(p, 1) THEN NeedMore(v)
         ELSE IF p[1][1] \notin {"LS", "LIST", "REQ", "END"} THEN Err("unknownsub", <<>>)
         ELSE IF p[1][1] = "LS" /\ Has(p, 2) /\ (~IsDigits(p[2][1]) \/ StrToNat(p[2][1]) < 302) THEN WrongParam
         ELSE <<>>
    ELSE IF v \in {"PASS", "PING", "PONG", "WHO", "WALLOPS"} THEN IF ~Has(p, 1) THEN NeedMore(v) ELSE <<>>
    ELSE IF v = "NICK" THEN IF ~Has(p, 1) THEN NeedMore(v) ELSE IF ~ValidUserName(p[1][1]) THEN WrongParam ELSE <<>>
    ELSE IF v = "USER" THEN IF ~Has(p, 1) \/ ~Has(p, 2) THEN NeedMore(v) ELSE IF ~ValidUserName(p[1][1]) THEN WrongParam ELSE <<>>
    ELSE IF v = "OPER" THEN IF ~Has(p, 1) \/ ~Has(p, 2) THEN NeedMore(v) ELSE IF ~ValidUserName(p[1][1]) THEN WrongParam ELSE <<>>
    ELSE IF v = "JOIN"
    THEN IF ~Has(p, 1) THEN NeedMore(v)
         ELSE IF Has(p, 2) /\ Len(p[2]) # Len(p[1]) THEN Err("parammismatch", <<>>)
         ELSE IF ~AllSeq(p[1], ValidChannel) THEN WrongParam ELSE <<>>
    ELSE IF v = "PART" THEN IF ~Has(p, 1) THEN NeedMore(v) ELSE IF ~AllSeq(p[1], ValidChannel) THEN WrongParam ELSE <<>>
    ELSE IF v = "TOPIC" THEN IF ~Has(p, 1) THEN NeedMore(v) ELSE IF ~ValidChannel(p[1][1]) THEN WrongParam ELSE <<>>
    ELSE IF v = "NAMES" THEN IF Has(p, 1) /\ ~AllSeq(p[1], ValidChannel) THEN WrongParam ELSE <<>>
    ELSE IF v = "LIST"
    THEN IF Has(p, 1) /\ ~AllSeq(p[1], ValidChannel) THEN WrongParam
         ELSE IF Has(p, 2) /\ ~ValidServer(p[2][1]) THEN WrongParam ELSE <<>>
    ELSE IF v = "INVITE"
    THEN IF ~Has(p, 1) \/ ~Has(p, 2) THEN NeedMore(v)
         ELSE IF ~ValidUserName(p[1][1]) \/ ~ValidChannel(p[2][1]) THEN WrongParam ELSE <<>>
    ELSE IF v = "KICK"
    THEN IF ~Has(p, 1) \/ ~Has(p, 2) THEN NeedMore(v)
         ELSE IF ~ValidChannel(p[1][1]) \/ ~AllSeq(p[2], ValidUserName) THEN WrongParam ELSE <<>>
    ELSE IF v \in {"MOTD", "VERSION", "ADMIN"} THEN IF Has(p, 1) /\ ~ValidServerMask(p[1][1]) THEN WrongParam ELSE <<>>
    ELSE IF v = "TIME" THEN IF Has(p, 1) /\ ~ValidServer(p[1][1]) THEN WrongParam ELSE <<>>
    ELSE IF v = "CONNECT"
    THEN IF ~Has(p, 1) THEN NeedMore(v)
         ELSE IF Has(p, 2) /\ (~IsDigits(p[2][1]) \/ StrToNat(p[2][1]) > 65535) THEN WrongParam
         ELSE IF ~ValidServer(p[1][1]) \/ (Has(p, 3) /\ ~ValidServer(p[3][1])) THEN WrongParam ELSE <<>>
    ELSE IF v = "STATS"
    THEN IF ~Has(p, 1) THEN NeedMore(v)
         ELSE IF p[1][1] \notin {"c", "h", "i", "k", "l", "m", "o", "u", "y"} THEN WrongParam
         ELSE IF Has(p, 2) /\ ~ValidServer(p[2][1]) THEN WrongParam ELSE <<>>
    ELSE IF v = "LINKS"
    THEN IF Has(p, 2) THEN IF ~ValidServer(p[1][1]) \/ ~ValidServerMask(p[2][1]) THEN WrongParam ELSE <<>>
         ELSE IF Has(p, 1) /\ ~ValidServerMask(p[1][1]) THEN WrongParam ELSE <<>>
    ELSE IF v = "MODE"
    THEN IF ~Has(p, 1) THEN NeedMore(v)
         ELSE LET x == p[1][1]
                  groups == Tail(p)
              IN IF groups # <<>> /\ ~(Len(groups[1]) > 0 /\ Chr(groups[1][1], 1) \in {"+", "-"}) THEN WrongParam
                 ELSE IF ValidChannel(x) THEN ValidateGroups(x, groups, TRUE)
                 ELSE IF ValidUserName(x) THEN ValidateGroups(x, groups, FALSE)
                 ELSE WrongParam
    ELSE IF v \in {"PRIVMSG", "NOTICE"}
    THEN IF ~Has(p, 1) \/ Len(p) < 2 \/ Len(p[2]) < 1 THEN NeedMore(v)
         ELSE IF ~AllSeq(p[1], ValidTarget) THEN WrongParam ELSE <<>>
    ELSE IF v = "WHOIS"
    THEN IF ~Has(p, 1) THEN NeedMore(v)
         ELSE IF Has(p, 2) THEN IF ~ValidServer(p[1][1]) \/ ~AllSeq(p[2], ValidUserName) THEN WrongParam ELSE <<>>
         ELSE IF ~AllSeq(p[1], ValidUserName) THEN WrongParam ELSE <<>>
    ELSE IF v = "WHOWAS"
    THEN IF ~Has(p, 1) THEN NeedMore(v)
         ELSE IF Has(p, 2) /\ ~IsDigits(p[2][1]) THEN WrongParam
         ELSE IF ~ValidUserName(p[1][1]) \/ (Has(p, 3) /\ ~ValidServer(p[3][1])) THEN WrongParam ELSE <<>>
    ELSE IF v = "KILL" THEN IF ~Has(p, 1) \/ ~Has(p, 2) THEN NeedMore(v) ELSE IF ~ValidUserName(p[1][1]) THEN WrongParam ELSE <<>>
    ELSE IF v = "SQUIT" THEN IF ~Has(p, 1) \/ ~Has(p, 2) THEN NeedMore(v) ELSE IF ~ValidServer(p[1][1]) THEN WrongParam ELSE <<>>
    ELSE IF v = "USERHOST" THEN IF ~Has(p, 1) THEN NeedMore(v) ELSE IF ~AllSeq(p[1], ValidUserName) THEN WrongParam ELSE <<>>
    ELSE IF v = "ISON" THEN IF ~Has(p, 1) THEN NeedMore(v) ELSE <<>>
    ELSE <<>>

ErrOut(S, c, e) ==
    IF e.kind \in {"wrongparam", "parammismatch", "unknownsub"} THEN Srv(c, "ERROR", <<"invalid">>)
    ELSE Num(S, c, e.kind, e.a)

(***************************************************************************)
(* Apply: one input line (or fault) on connection c                        *)
(***************************************************************************)
Faults == {"!open", "!close", "!rst", "!half", "!stall", "!dns"}

Dispatch(S, c, cmd) ==
    LET v == cmd.verb
        p == cmd.p
        Q(out) == Res(S, out)
    IN
    CASE v = "CAP" -> HCap(S, c, p)
      [] v = "AUTHENTICATE" -> Q(<< Num(S, c, "421", <<"AUTHENTICATE">>) >>)
      [] v = "PASS" -> HPass(S, c, p[1][1])
      [] v = "NICK" -> HNick(S, c, p[1][1])
      [] v = "USER" -> HUser(S, c, p[1][1], p[2][1])
      [] v = "PING" -> Q(<< Srv(c, "PONG", <<S.cfg.name, p[1][1]>>) >>)
      [] v = "PONG" -> Q(<<>>)
      [] v = "OPER" -> HOper(S, c, p[1][1], p[2][1])
      [] v = "QUIT" -> HQuit(S, c)
      [] v = "JOIN" -> HJoin(S, c, p[1], IF Has(p, 2) THEN p[2] ELSE <<>>)
      [] v = "PART" -> HPart(S, c, p[1], Opt1(p, 2))
      [] v = "TOPIC" -> HTopic(S, c, p[1][1], Opt1(p, 2))
      [] v = "NAMES" -> Q(HNames(S, c, IF Has(p, 1) THEN p[1] ELSE <<>>))
      [] v = "LIST" -> Q(HList(S, c, IF Has(p, 1) THEN p[1] ELSE <<>>, Opt1(p, 2)))
      [] v = "INVITE" -> HInvite(S, c, p[1][1], p[2][1])
      [] v = "KICK" -> HKick(S, c, p[1][1], p[2], Opt1(p, 3))
      [] v = "MOTD" -> Q(IF Has(p, 1) THEN << Num(S, c, "400", <<"MOTD">>) >> ELSE MotdOut(S, c))
      [] v = "VERSION" -> Q(IF Has(p, 1) THEN << Num(S, c, "400", <<"VERSION">>) >>
                            ELSE << Num(S, c, "351", <<>>) >> \o ISupportOut(S, c))
      [] v = "ADMIN" -> Q(IF Has(p, 1) THEN << Num(S, c, "400", <<"ADMIN">>) >> ELSE HAdmin(S, c))
      [] v \in {"CONNECT", "REHASH", "RESTART"} -> Q(<< Num(S, c, "400", <<v>>) >>)
      [] v = "LUSERS" -> Q(LusersOut(S, c))
      [] v = "TIME" -> Q(IF Has(p, 1) THEN << Num(S, c, "400", <<"TIME">>) >> ELSE << Num(S, c, "391", <<>>) >>)
      [] v = "STATS" -> Q(HStats(S, c, p[1][1], Opt1(p, 2)))
      [] v = "LINKS" -> Q(IF Has(p, 1) THEN << Num(S, c, "400", <<"LINKS">>) >>
                          ELSE << Num(S, c, "364", <<S.cfg.name, S.cfg.name>>), Num(S, c, "365", <<"*">>) >>)
      [] v = "HELP" -> Q(HHelp(S, c, Opt1(p, 1)))
      [] v = "INFO" -> Q(<< Num(S, c, "371", <<>>), Num(S, c, "374", <<>>) >>)
      [] v = "MODE" -> IF ValidChannel(p[1][1]) THEN HModeChan(S, c, p[1][1], Tail(p))
                       ELSE HModeUser(S, c, p[1][1], Tail(p))
      [] v \in {"PRIVMSG", "NOTICE"} -> Q(HMsg(S, c, v, p[1], p[2][1]))
      [] v = "WHO" -> Q(HWho(S, c, p[1][1]))
      [] v = "WHOIS" -> Q(IF Has(p, 2) THEN HWhois(S, c, <<p[1][1]>>, p[2]) ELSE HWhois(S, c, <<>>, p[1]))
      [] v = "WHOWAS" -> Q(HWhowas(S, c, p[1][1], Opt1(p, 2), Opt1(p, 3)))
      [] v = "KILL" -> HKill(S, c, p[1][1], p[2][1])
      [] v = "SQUIT" -> IF p[1][1] # S.cfg.name THEN Q(<< Num(S, c, "400", <<"SQUIT">>) >>) ELSE HDie(S, c, p[2][1])
      [] v = "AWAY" -> HAway(S, c, Opt1(p, 1))
      [] v = "USERHOST" -> Q(HUserhost(S, c, p[1]))
      [] v = "WALLOPS" -> Q(HWallops(S, c, p[1][1]))
      [] v = "ISON" -> Q(HIson(S, c, p[1]))
      [] v = "DIE" -> HDie(S, c, IF Has(p, 1) THEN p[1][1] ELSE "Quitting from DIE")

Apply(S, c, cmd) ==
    LET v == cmd.verb IN
    IF v = "!open"
    THEN IF S.cfg.max_connections # <<>> /\ S.connCnt >= S.cfg.max_connections[1]
         THEN Res(S, << Eof(c) >>)         \* refused: the socket is closed at once
         ELSE Res([S EXCEPT !.conns = Upd(S.conns, c, FreshConn(c)), !.connCnt = S.connCnt + 1], <<>>)
    ELSE IF v \in {"!close", "!rst", "!half"} THEN Res(Teardown(S, c), <<>>)
    (* the reverse lookup of c's address completes (configuration item dns_lookup).  The name found replaces the   *)
    (* address in c's own source - and in the record of the user c has REGISTERED, of nobody else.  The harness     *)
    (* answers every lookup with the address itself, so for a correct server nothing observable changes.           *)
    ELSE IF v = "!dns" THEN Res(S, <<>>)
    ELSE IF v = "!stall" THEN Res(SetConn(S, c, [S.conns[c] EXCEPT !.stalled = TRUE]), <<>>)
    ELSE
    LET e == Validate(cmd) IN
    IF e # <<>> THEN Res(S, << ErrOut(S, c, e[1]) >>)
    ELSE IF ~S.conns[c].authed /\ v \notin PreRegVerbs THEN Res(S, << Num(S, c, "451", <<>>) >>)
    ELSE Dispatch(S, c, cmd)

(* well-formedness of a state (every reachable state satisfies it; a recorded state that  *)
(* does not is reported once and not fed to the handlers)                                *)
WF(S) ==
    /\ \A c \in DOMAIN S.conns : S.conns[c].authed =>
          S.conns[c].nick # <<>> /\ S.conns[c].nick[1] \in DOMAIN S.users
    /\ \A n \in DOMAIN S.users : \A x \in S.users[n].chans :
          x \in DOMAIN S.chans /\ n \in DOMAIN S.chans[x].members
    /\ \A x \in DOMAIN S.chans : \A n \in DOMAIN S.chans[x].members : n \in DOMAIN S.users /\ x \in S.users[n].chans
    /\ \A x \in DOMAIN S.chans : \A r \in RankSet : S.chans[x].rs[r] \subseteq DOMAIN S.chans[x].members
    /\ \A n \in DOMAIN S.users : S.users[n].host \in DOMAIN S.conns
    /\ S.wallops \subseteq DOMAIN S.users
=============================================================================
