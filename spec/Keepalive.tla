------------------------------- MODULE Keepalive -------------------------------
(***************************************************************************)
(* C17: the keep-alive mechanism in discrete time (one tick = one second). *)
(* Code-shaped: a waker posts a PING every ping_timeout after              *)
(* registration; sending a PING arms a pong timeout; a PONG (any token)    *)
(* disarms the pending one; an expired timeout ends the session.           *)
(*                                                                         *)
(* ReplaceOnPing = TRUE is what the code did before the fix: every PING    *)
(* replaced the pending timeout (dropping its notifier cancels it), so     *)
(* with pong_timeout >= ping_timeout a silent client was never dropped.    *)
(* TLC finds that counterexample (Keepalive_faithful.cfg); the fixed       *)
(* behaviour (a PING arms a timeout only if none is pending) satisfies     *)
(* both properties for every configuration in range.                       *)
(***************************************************************************)
EXTENDS Naturals, Sequences, FiniteSets, TLC, KeepaliveDefs
CONSTANTS MaxPing, MaxPong, Horizon, ReplaceOnPing

Patterns == {"always", "never", "stops1", "stops2", "late1", "late2"}

VARIABLES now, ping, pong, pat, nextPing, pending, pongsDue, answered, dropped, dropTime, firstUnanswered, pingsSent
vars == <<now, ping, pong, pat, nextPing, pending, pongsDue, answered, dropped, dropTime, firstUnanswered, pingsSent>>

None == 0   \* pending = 0: no timeout armed (deadlines are >= 1)

Answers(p, k) ==    \* does the client answer the k-th PING
    CASE p = "never" -> FALSE
      [] p = "stops1" -> k <= 1
      [] p = "stops2" -> k <= 2
      [] OTHER -> TRUE

Init == /\ now = 0 /\ ping \in 1..MaxPing /\ pong \in 1..MaxPong /\ pat \in Patterns
        /\ nextPing = ping /\ pending = None /\ pongsDue = {} /\ answered = 0
        /\ dropped = FALSE /\ dropTime = 0 /\ firstUnanswered = 0 /\ pingsSent = 0

(* the waker fires: the connection sends a PING and arms (or, before the fix, replaces) the timeout *)
SendPing ==
    /\ ~dropped /\ now = nextPing
    /\ nextPing' = nextPing + ping
    /\ pingsSent' = pingsSent + 1
    /\ pending' = IF ReplaceOnPing \/ pending = None THEN now + pong ELSE pending
    /\ IF Answers(pat, pingsSent + 1)
       THEN pongsDue' = pongsDue \cup {now + Delay(pat)} /\ firstUnanswered' = firstUnanswered
       ELSE pongsDue' = pongsDue /\ firstUnanswered' = IF firstUnanswered = 0 THEN now ELSE firstUnanswered
    /\ UNCHANGED <<now, ping, pong, pat, answered, dropped, dropTime>>

(* a PONG arrives: it disarms the pending timeout *)
RecvPong ==
    /\ ~dropped /\ now \in pongsDue
    /\ pongsDue' = pongsDue \ {now}
    /\ pending' = None /\ answered' = answered + 1
    /\ UNCHANGED <<now, ping, pong, pat, nextPing, dropped, dropTime, firstUnanswered, pingsSent>>

(* the armed timeout expires *)
Timeout ==
    /\ ~dropped /\ pending # None /\ now >= pending
    /\ dropped' = TRUE /\ dropTime' = now /\ pending' = None
    /\ UNCHANGED <<now, ping, pong, pat, nextPing, pongsDue, answered, firstUnanswered, pingsSent>>

(* time passes only when nothing is due now (events of one instant happen in any order) *)
Tick ==
    /\ now < Horizon
    /\ ~(~dropped /\ now = nextPing) /\ ~(~dropped /\ now \in pongsDue)
    /\ ~(~dropped /\ pending # None /\ now >= pending)
    /\ now' = now + 1
    /\ UNCHANGED <<ping, pong, pat, nextPing, pending, pongsDue, answered, dropped, dropTime, firstUnanswered, pingsSent>>

Next == SendPing \/ RecvPong \/ Timeout \/ Tick
Spec == Init /\ [][Next]_vars

(* a client that answers every PING in time is never disconnected *)
(* (also when the answer takes longer than ping_timeout: what counts is pong_timeout) *)
LiveKept == (pat \in {"always", "late1", "late2"} /\ Delay(pat) < pong) => ~dropped
(* a client that stops answering is disconnected no later than pong_timeout after the first PING it failed to answer *)
DeadDropped == (firstUnanswered # 0 /\ now > firstUnanswered + pong) => dropped
DropNotEarly == dropped => (firstUnanswered # 0 \/ Delay(pat) >= pong)
DropOnTime == (dropped /\ firstUnanswered # 0) => dropTime <= firstUnanswered + pong

=============================================================================
