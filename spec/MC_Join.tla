------------------------------- MODULE MC_Join -------------------------------
(* C07 (also C04, C16): every combination of key, ban, exception, invite-only, invitation, *)
(* invite-exception, limit/occupancy and quota, reached through MODE/INVITE/JOIN/PART       *)
EXTENDS IrcModel
A == "127.0.0.1"
B == "127.0.0.2"
C == "127.0.0.3"
Cfg == [BaseCfg EXCEPT !.max_joins = <<2>>]
Pre == Reg(A, "alice", "u1") \o Reg(B, "bob", "u2") \o Reg(C, "carol", "u3")
          \o << St(A, "JOIN", <<<<"#one">>>>), St(B, "JOIN", <<<<"#one">>>>) >>
M(c, grp) == St(c, "MODE", <<<<"#one">>, grp>>)
Steps ==
    { M(A, <<"+k", "k1">>), M(A, <<"-k">>), M(A, <<"+l", "2">>), M(A, <<"+l", "3">>), M(A, <<"-l">>),
      M(A, <<"+i">>), M(A, <<"-i">>),
      M(A, <<"+b", "carol!*@*">>), M(A, <<"-b", "carol!*@*">>),
      M(A, <<"+e", "*!*@127.0.0.3">>), M(A, <<"-e", "*!*@127.0.0.3">>),
      M(A, <<"+I", "carol">>), M(A, <<"-I", "carol">>),
      St(A, "INVITE", <<<<"carol">>, <<"#one">>>>),
      St(B, "PART", <<<<"#one">>>>), St(B, "JOIN", <<<<"#one">>, <<"k1">>>>),
      St(C, "JOIN", <<<<"#one">>>>), St(C, "JOIN", <<<<"#one">>, <<"k1">>>>), St(C, "JOIN", <<<<"#one">>, <<"bad">>>>),
      St(C, "JOIN", <<<<"#two">>>>), St(C, "JOIN", <<<<"&three">>>>), St(C, "PART", <<<<"#two">>>>),
      St(C, "PART", <<<<"#one">>>>),
      St(C, "JOIN", <<<<"#one", "#two">>, <<"k1", "x">>>>), St(C, "JOIN", <<<<"#two", "#one">>>>) }
Init == InitWith(Cfg, Pre)
Next == NextWith(Steps)
Spec == Init /\ [][Next]_vars
Depth == 6
DepthT == 8
Constraint == Len(hist) <= Len(Pre) + Depth
ASSUME PrintT(<<"CFG", ToJson(CfgJson(Cfg))>>)
=============================================================================
