------------------------------- MODULE IrcModel -------------------------------
(***************************************************************************)
(* The transition system every finite model (MC_*.tla) instantiates:       *)
(* one step = one command of the model's alphabet applied with Apply.      *)
(* `hist` (the commands from the initial state) and `ev` (the last step)   *)
(* are observation variables hidden by VIEW; they let TLC print every      *)
(* transition together with a shortest behaviour reaching it (EDGE lines,  *)
(* replayed against the implementation by the harness) and let the         *)
(* declarative properties be evaluated per transition.                     *)
(***************************************************************************)
EXTENDS IrcProps, Json

VARIABLES S, ev, hist
vars == <<S, ev, hist>>
ModelView == S
(* for the (multi-worker) property check: with the depth in the view the search does not depend on the order in which workers reach a state *)
CheckView == <<S, Len(hist)>>

St(c, verb, p) == [c |-> c, cmd |-> [verb |-> verb, p |-> p]]
NoEv == [c |-> "", cmd |-> [verb |-> "", p |-> <<>>], out |-> <<>>]

RunSeq(S0, steps) == FoldLeft(LAMBDA T, st : Apply(T, st.c, st.cmd).st, S0, steps)

InitWith(cfg, prefix) ==
    /\ S = RunSeq(InitState(cfg), prefix)
    /\ ev = NoEv
    /\ hist = prefix

(* many initial states: the prefix followed by every sub-sequence of a list of independent toggles, so that *)
(* every COMBINATION of conditions is a start state instead of lying deep in the graph                      *)
RECURSIVE SubLists(_)
SubLists(q) == IF q = <<>> THEN {<<>>} ELSE LET R == SubLists(Tail(q)) IN R \cup {<<Head(q)>> \o r : r \in R}
InitWithToggles(cfg, prefix, toggles) ==
    \E t \in SubLists(toggles) :
       /\ S = RunSeq(InitState(cfg), prefix \o t)
       /\ ev = NoEv
       /\ hist = prefix \o t

NextWith(steps) ==      \* steps: the set of [c, cmd] the alphabet offers in state S
    \E st \in steps :
       LET R == Apply(S, st.c, st.cmd) IN
       /\ S' = R.st
       /\ ev' = [c |-> st.c, cmd |-> st.cmd, out |-> R.out]
       /\ hist' = Append(hist, st)

(* checked on every transition *)
StepProps == AllStepProps(S, ev'.c, ev'.cmd, [st |-> S', out |-> ev'.out])
StepPropsHold == [][StepProps]_vars
StateProps == AllStateProps(S)
Inv_Sym == InvSym(S)
Inv_Owner == InvOwner(S)
Inv_Counters == InvCounters(S)
Inv_Wallops == InvWallops(S)
Inv_EmptyChan == InvEmptyChan(S)
Inv_C04Views == C04_State(S)
Inv_C16 == C16_State(S)
Inv_WF == WF(S)

(* one line per transition: the whole behaviour that ends with it *)
(* with its transition class: the codes it outputs and the state fields it changes *)
ExportEdge == PrintT(<<"EDGE", ToJson([steps |-> hist',
                                       sig |-> [codes |-> SetToSeq({m.c : m \in ToSet(ev'.out)}),
                                                changes |-> SetToSeq({TagStr(t) : t \in StateTags(S, S')})]])>>)

(* configuration with every field present *)
BaseCfg == [ name |-> "irc.irc", network |-> "IRCnetwork", motd |-> "Hello, world!",
             admin_info |-> "ircadmin is IRC admin", admin_info2 |-> <<>>, admin_email |-> <<>>,
             password |-> <<>>, max_joins |-> <<>>, max_connections |-> <<>>,
             default_modes |-> {}, tls |-> FALSE, dns |-> FALSE, operators |-> <<>>, users |-> <<>>, channels |-> <<>> ]
ChanCfg(name) == [ name |-> name, topic |-> <<>>, flags |-> {}, key |-> <<>>, limit |-> <<>>,
                   ban |-> {}, exc |-> {}, invex |-> {}, q |-> {}, a |-> {}, o |-> {}, h |-> {}, v |-> {} ]
(* JSON form of a configuration (sets as arrays) for the EDGE/CFG lines *)
CfgJson(cfg) ==
    [cfg EXCEPT !.default_modes = SetToSeq(cfg.default_modes),
                !.channels = [k \in DOMAIN cfg.channels |->
                    LET ch == cfg.channels[k] IN
                    [ch EXCEPT !.flags = SetToSeq(ch.flags), !.ban = SetToSeq(ch.ban), !.exc = SetToSeq(ch.exc),
                               !.invex = SetToSeq(ch.invex), !.q = SetToSeq(ch.q), !.a = SetToSeq(ch.a),
                               !.o = SetToSeq(ch.o), !.h = SetToSeq(ch.h), !.v = SetToSeq(ch.v)]]]

Reg(c, nick, uname) == << St(c, "!open", <<>>), St(c, "NICK", <<<<nick>>>>), St(c, "USER", <<<<uname>>, <<"Real " \o uname>>>>) >>
=============================================================================
