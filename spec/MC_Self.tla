------------------------------- MODULE MC_Self -------------------------------
(* C02, second half: a connection can rename, modify or remove only the user it registered itself.  *)
(* Two users whose nicknames differ only in letter case (the server treats them as different), an  *)
(* operator with modes and away state, and every command that names a nickname aimed at the own,   *)
(* the foreign and the case-variant foreign name: MODE with every letter and sign, NICK, AWAY,     *)
(* KICK/INVITE (channel relations only), WHOIS as probe.                                           *)
EXTENDS IrcModel
A == "127.0.0.1"
B == "127.0.0.2"
C == "127.0.0.3"
D == "127.0.0.4"
Cfg == [BaseCfg EXCEPT !.operators = << [name |-> "god", pass |-> "godpass", mask |-> <<>>] >>]
Pre == Reg(A, "Roland", "u1") \o Reg(B, "roland", "u2") \o Reg(C, "carol", "u3")
       \o << St(A, "OPER", <<<<"god">>, <<"godpass">>>>), St(A, "MODE", <<<<"Roland">>, <<"+iw">>>>), St(A, "AWAY", <<<<"busy">>>>),
             St(A, "JOIN", <<<<"#one">>>>), St(B, "JOIN", <<<<"#one">>>>), St(D, "!open", <<>>), St(D, "NICK", <<<<"ROLAND">>>>) >>
N10 == "abcdefghij"
N40 == N10 \o N10 \o N10 \o N10
N200 == N40 \o N40 \o N40 \o N40 \o N40
N201 == N200 \o "x"      \* longer than the advertised NICKLEN: accepted, and kept whole
Names == {"Roland", "roland", "ROLAND", "carol", "nobody"}
Acts == { St(c, "MODE", <<<<n>>, <<m>>>>) : c \in {A, B, C}, n \in Names \ {"nobody"}, m \in {"-o", "+o", "-i", "-w", "+r", "-o+iw"} }
        \cup { St(c, "MODE", <<<<n>>>>) : c \in {B, C}, n \in Names }
        \cup { St(c, "NICK", <<<<n>>>>) : c \in {A, B, C}, n \in {"Roland", "roland", "ROLAND", "rOLAND"} }
        \cup { St(c, "NICK", <<<<n>>>>) : c \in {B, C}, n \in {N200, N201} }
        \cup { St(B, "AWAY", <<<<"away too">>>>), St(B, "AWAY", <<>>), St(D, "USER", <<<<"u4">>, <<"R">>>>), St(D, "QUIT", <<>>), St(B, "QUIT", <<>>),
               St(B, "KICK", <<<<"#one">>, <<"Roland">>>>), St(A, "KICK", <<<<"#one">>, <<"roland">>>>), St(C, "WHOIS", <<<<"Roland", "roland">>>>),
               St(B, "PRIVMSG", <<<<"Roland">>, <<"hi">>>>), St(C, "USERHOST", <<<<"Roland", "roland", "ROLAND">>>>), St(A, "LUSERS", <<>>) }
Enabled(st) == st.c \in DOMAIN S.conns
Steps == {st \in Acts : Enabled(st)}
Init == InitWith(Cfg, Pre)
Next == NextWith(Steps)
Spec == Init /\ [][Next]_vars
Depth == 2
DepthT == 3
Constraint == Len(hist) <= Len(Pre) + Depth
ASSUME PrintT(<<"CFG", ToJson(CfgJson(Cfg))>>)
=============================================================================
