------------------------------- MODULE TraceLin -------------------------------
(***************************************************************************)
(* C18 (and the schedule half of C02): validation of CONCURRENT rounds.    *)
(* In a round every connection fires a pipelined script at the same time.  *)
(* Recorded: the state before, the scripts, for every socket the lines it  *)
(* received in arrival order - split into its direct stream (server lines) *)
(* and, per sending connection, the relayed lines - and the state after.   *)
(*                                                                         *)
(* A round is accepted iff SOME order of all commands that respects every  *)
(* connection's own order, executed one at a time with Apply, explains the *)
(* observation: each command's outputs are, receiver by receiver, the next *)
(* lines of the corresponding recorded stream (so replies arrive in        *)
(* command order and relays per sender-receiver pair in sending order),    *)
(* everything recorded is consumed, and the final state is the recorded    *)
(* one.  TLC searches the orders; an accepting state prints ACCEPT, a      *)
(* dead end prints STUCK with what was expected next.                      *)
(***************************************************************************)
EXTENDS TraceSeq

Rounds == SelectSeq(Rec, LAMBDA r : "scripts" \in DOMAIN r)
Diag == IF "DIAG" \in DOMAIN IOEnv THEN IOEnv.DIAG = "1" ELSE FALSE

VARIABLES rd, pos, dpos, rpos, opos, T, pk
lvars == <<rd, pos, dpos, rpos, opos, T, pk, i>>

R0 == Rounds[rd]
ConnsOf(r) == ToSet(r.conns)

LInit ==
    /\ i = 0
    /\ rd \in {k \in 1..Len(Rounds) : WF(FromSnap(Rounds[k].pre, CfgOf(Rounds[k].cfg)))}
    /\ pos = [c \in ConnsOf(Rounds[rd]) |-> 0]
    /\ dpos = [c \in ConnsOf(Rounds[rd]) |-> 0]
    /\ rpos = [x \in ConnsOf(Rounds[rd]) |-> [s \in ConnsOf(Rounds[rd]) |-> 0]]
    /\ opos = [c \in ConnsOf(Rounds[rd]) |-> 0]
    /\ T = FromSnap(Rounds[rd].pre, CfgOf(Rounds[rd].cfg))
    /\ pk = {}

Chunk(q, from, n) == SubSeq(q, from + 1, from + n)
(* outputs of one command, per receiver *)
DirectTo(out, x) == SelectSeq(out, LAMBDA m : m.to = x /\ m.k # "r")
RelayTo(out, x) == SelectSeq(out, LAMBDA m : m.to = x /\ m.k = "r")

(* A receiver whose session ends in this round may lose the tail of what was queued for it: lines *)
(* put into its queue after its task drained it for the last time are never written.  For such a   *)
(* receiver the recorded relay stream of each sender need only be a prefix of the expected one.    *)
EndsHere(x) == x \in DOMAIN R0.pre.conns /\ x \notin DOMAIN R0.post.conns
IsSubBag(a, b) == \A e \in DOMAIN a : e \in DOMAIN b /\ a[e] <= b[e]
TakeN(x, c, rl) == IF EndsHere(x) /\ Len(R0.relay[x][c]) - rpos[x][c] < Len(rl)
                  THEN Len(R0.relay[x][c]) - rpos[x][c] ELSE Len(rl)

(* Replies to one connection's commands arrive in the order the commands were sent - the echoes of its own commands *)
(* (PART, NICK, TOPIC, MODE, KICK ... announced to the issuer too, through its queue) included: own[c] is what    *)
(* socket c received, in arrival order, leaving out what other connections' commands sent it.                    *)
HasOwn == "own" \in DOMAIN R0
OwnOut(c, out) == SelectSeq(out, LAMBDA m : m.to = c)
OwnOK(c, out) ==
    (HasOwn /\ ~EndsHere(c)) =>
       LET o == OwnOut(c, out) IN
       /\ opos[c] + Len(o) <= Len(R0.own[c])
       /\ BagOf(Chunk(R0.own[c], opos[c], Len(o))) = BagOf(o)

Explains(c, out) ==
    /\ OwnOK(c, out)
    /\ \A x \in ConnsOf(R0) :
       LET d == DirectTo(out, x)
           rl == RelayTo(out, x)
       IN /\ dpos[x] + Len(d) <= Len(R0.direct[x])
          /\ BagOf(Chunk(R0.direct[x], dpos[x], Len(d))) = BagOf(d)
          /\ IF EndsHere(x)
             THEN IsSubBag(BagOf(Chunk(R0.relay[x][c], rpos[x][c], TakeN(x, c, rl))), BagOf(rl))
             ELSE /\ rpos[x][c] + Len(rl) <= Len(R0.relay[x][c])
                  /\ BagOf(Chunk(R0.relay[x][c], rpos[x][c], Len(rl))) = BagOf(rl)

(* KILL takes effect in two steps, as in the code: the operator's command only signals the *)
(* victim's connection; the victim's own task later sends the ERROR and ends the session.  *)
KillsNow(c, cm) ==
    /\ cm.verb = "KILL" /\ c \in DOMAIN T.conns /\ T.conns[c].authed /\ Validate(cm) = <<>>
    /\ "o" \in UserOf(T, c).modes /\ cm.p[1][1] \in DOMAIN T.users

StepOf(c) ==
    /\ pos[c] < Len(R0.scripts[c])
    /\ LET cm == R0.scripts[c][pos[c] + 1] IN
       IF c \notin DOMAIN T.conns
       THEN (* the connection has ended: what it sent afterwards is lost *)
            /\ pos' = [pos EXCEPT ![c] = @ + 1]
            /\ UNCHANGED <<dpos, rpos, opos, T, pk>>
       ELSE IF KillsNow(c, cm)
       THEN /\ pos' = [pos EXCEPT ![c] = @ + 1]
            /\ pk' = IF \E x \in pk : x.v = T.users[cm.p[1][1]].host THEN pk
                      ELSE pk \cup {[v |-> T.users[cm.p[1][1]].host, killer |-> NickOf(T, c), comment |-> cm.p[2][1]]}
            /\ UNCHANGED <<dpos, rpos, opos, T>>
       ELSE LET R == Apply(T, c, cm) IN
            /\ Explains(c, R.out)
            /\ pos' = [pos EXCEPT ![c] = @ + 1]
            /\ dpos' = [x \in ConnsOf(R0) |-> dpos[x] + Len(DirectTo(R.out, x))]
            /\ rpos' = [x \in ConnsOf(R0) |-> [rpos[x] EXCEPT ![c] = @ + TakeN(x, c, RelayTo(R.out, x))]]
            /\ opos' = [opos EXCEPT ![c] = @ + Len(OwnOut(c, R.out))]
            /\ T' = R.st
            /\ UNCHANGED pk
    /\ UNCHANGED <<rd, i>>

(* the victim's task notices the signal (or the victim is already gone and the signal is lost) *)
KillObserved(x) ==
    /\ x \in pk
    /\ IF x.v \in DOMAIN T.conns
       THEN LET out == KillOut(x.v, x.killer, x.comment) IN
            /\ Explains(x.v, out)
            /\ dpos' = [y \in ConnsOf(R0) |-> dpos[y] + Len(DirectTo(out, y))]
            /\ opos' = [opos EXCEPT ![x.v] = @ + Len(OwnOut(x.v, out))]
            /\ T' = Teardown(T, x.v)
       ELSE UNCHANGED <<dpos, opos, T>>
    /\ pk' = pk \ {x}
    /\ UNCHANGED <<rd, i, pos, rpos>>

(* a round that starts from a state no behaviour of the specification reaches (left behind by an earlier, *)
(* already reported round) is not searched                                                                *)
ASSUME \A k \in 1..Len(Rounds) : WF(FromSnap(Rounds[k].pre, CfgOf(Rounds[k].cfg)))
                                  \/ PrintT(<<"ILLFORMED", ToJson([b |-> Rounds[k].b, round |-> Rounds[k].round])>>)

LNext == (\E c \in ConnsOf(R0) : StepOf(c)) \/ (\E x \in pk : KillObserved(x))
LSpec == LInit /\ [][LNext]_lvars

AllConsumed ==
    /\ \A c \in ConnsOf(R0) : pos[c] = Len(R0.scripts[c]) /\ dpos[c] = Len(R0.direct[c])
    /\ \A x \in ConnsOf(R0) : \A s \in ConnsOf(R0) : rpos[x][s] = Len(R0.relay[x][s])
    /\ HasOwn => \A c \in ConnsOf(R0) : EndsHere(c) \/ opos[c] = Len(R0.own[c])
Accepting == AllConsumed /\ pk = {} /\ T = FromSnap(R0.post, CfgOf(R0.cfg))

CanStep(c) ==
    /\ pos[c] < Len(R0.scripts[c])
    /\ (c \in DOMAIN T.conns => (KillsNow(c, R0.scripts[c][pos[c] + 1]) \/ Explains(c, Apply(T, c, R0.scripts[c][pos[c] + 1]).out)))
CanObserve(x) == x.v \in DOMAIN T.conns => Explains(x.v, KillOut(x.v, x.killer, x.comment))
Stuck == ~Accepting /\ (\A c \in ConnsOf(R0) : ~CanStep(c)) /\ (\A x \in pk : ~CanObserve(x))

StuckInfo ==
    [ round |-> R0.round, b |-> R0.b, pos |-> [c \in ConnsOf(R0) |-> pos[c]],
      consumed |-> AllConsumed,
      statediff |-> IF AllConsumed THEN SetToSeq({TagStr(t) : t \in StateTags(T, FromSnap(R0.post, CfgOf(R0.cfg)))}) ELSE <<>>,
      next |-> [c \in {x \in ConnsOf(R0) : pos[x] < Len(R0.scripts[x]) /\ x \in DOMAIN T.conns} |->
                  [cmd |-> R0.scripts[c][pos[c] + 1],
                   expected |-> Apply(T, c, R0.scripts[c][pos[c] + 1]).out,
                   got_direct |-> SubSeq(R0.direct[c], dpos[c] + 1, Len(R0.direct[c])),
                   got_relay |-> [x \in ConnsOf(R0) |-> SubSeq(R0.relay[x][c], rpos[x][c] + 1, Len(R0.relay[x][c]))]]],
      pending_kills |-> SetToSeq(pk) ]

(* evaluated on every state; always TRUE, prints as a side effect *)
Observe ==
    /\ (Accepting => PrintT(<<"ACCEPT", ToJson([round |-> R0.round, b |-> R0.b, idx |-> rd])>>))
    /\ ((Diag /\ Stuck) => PrintT(<<"STUCK", ToJson(StuckInfo)>>))
(* the invariants of the specification hold in every state of every explaining order *)
LinInv == WF(T)
=============================================================================
