------------------------------- MODULE TraceSeq -------------------------------
(***************************************************************************)
(* Trace validation of sequential recordings (code -> spec, and the        *)
(* recordings of replayed TLC behaviours, spec -> code).                   *)
(*                                                                         *)
(* The recording is NDJSON (IOEnv.TRACE): reset records carrying the       *)
(* configuration and the implementation's initial snapshot, followed by    *)
(* step records [c, cmd, outs, post, issue, panics].  Every step is judged *)
(* from the implementation's OWN previous snapshot (re-synchronisation):   *)
(*     Apply(FromSnap(prev.post), c, cmd) must yield the recorded post     *)
(*     state and, as a bag, the recorded outputs;                          *)
(* every state invariant is evaluated on every recorded snapshot.          *)
(* Each divergence is reported with the projections (properties) that own  *)
(* it (IrcProj.tla); divergences no projection owns are reported as drift. *)
(***************************************************************************)
EXTENDS IrcProj, Json, IOUtils

Rec == ndJsonDeserialize(IOEnv.TRACE)

VARIABLE i
vars == <<i>>

(* ---- JSON -> specification values ---- *)
CfgOf(j) ==
    [ name |-> j.name, network |-> j.network, motd |-> j.motd,
      admin_info |-> j.admin_info, admin_info2 |-> j.admin_info2, admin_email |-> j.admin_email,
      password |-> j.password, max_joins |-> j.max_joins, max_connections |-> j.max_connections,
      default_modes |-> ToSet(j.default_modes), tls |-> j.tls, dns |-> j.dns,
      operators |-> j.operators, users |-> j.users,
      channels |-> [k \in DOMAIN j.channels |->
          LET ch == j.channels[k] IN
          [ name |-> ch.name, topic |-> ch.topic, flags |-> ToSet(ch.flags), key |-> ch.key,
            limit |-> ch.limit, ban |-> ToSet(ch.ban), exc |-> ToSet(ch.exc), invex |-> ToSet(ch.invex),
            q |-> ToSet(ch.q), a |-> ToSet(ch.a), o |-> ToSet(ch.o), h |-> ToSet(ch.h), v |-> ToSet(ch.v) ]] ]

FromSnap(j, cfg) ==
    [ cfg |-> cfg,
      users |-> [n \in DOMAIN j.users |->
          LET u == j.users[n] IN
          [ host |-> u.host, uname |-> u.uname, real |-> u.real, src |-> u.src,
            modes |-> ToSet(u.modes), away |-> u.away, chans |-> ToSet(u.chans),
            invited |-> ToSet(u.invited), killable |-> u.killable ]],
      chans |-> [x \in DOMAIN j.chans |->
          LET ch == j.chans[x] IN
          [ members |-> [m \in DOMAIN ch.members |-> ToSet(ch.members[m])],
            rs |-> [r \in RankSet |-> ToSet(ch.rs[r])],
            flags |-> ToSet(ch.flags), key |-> ch.key, limit |-> ch.limit,
            ban |-> ToSet(ch.ban), exc |-> ToSet(ch.exc), invex |-> ToSet(ch.invex),
            banwho |-> ch.banwho, topic |-> ch.topic, topicby |-> ch.topicby,
            preconf |-> ch.preconf, def |-> [r \in RankSet |-> ToSet(ch.def[r])] ]],
      wallops |-> ToSet(j.wallops), invCnt |-> j.invCnt, operCnt |-> j.operCnt,
      maxUsers |-> j.maxUsers, whowas |-> j.whowas, connCnt |-> j.connCnt, up |-> j.up,
      conns |-> j.conns ]

(* the configuration in force at record k: that of the closest reset record at or before k *)
RECURSIVE ResetIdx(_)
ResetIdx(k) == IF "reset" \in DOMAIN Rec[k] THEN k ELSE ResetIdx(k - 1)

(* ---- one step ---- *)
StepTags(k) ==
    LET r == Rec[k]
        cfg == CfgOf(Rec[ResetIdx(k)].cfg)
        pre == FromSnap(Rec[k - 1].post, cfg)
        obs == FromSnap(r.post, cfg)
        runTags == (IF r.post.dead # <<>> THEN {Tag("run", "dead", "", "")} ELSE {})
                   \cup (IF r.issue # <<>> THEN {Tag("run", "issue", "", "")} ELSE {})
                   \cup (IF r.panics # <<>> THEN {Tag("run", "panic", "", "")} ELSE {})
        (* a raw line (C05): only its effect is judged - the sender stays connected and registered, *)
        (* nobody else loses a connection, no invariant breaks                                     *)
        rawTags == (IF r.c \in DOMAIN pre.conns /\ r.c \notin DOMAIN obs.conns THEN {Tag("run", "closed", "", "")} ELSE {})
                   \cup (IF \E d \in DOMAIN pre.conns : d # r.c /\ d \notin DOMAIN obs.conns THEN {Tag("run", "otherclosed", "", "")} ELSE {})
                   \cup (IF r.c \in DOMAIN pre.conns /\ r.c \in DOMAIN obs.conns /\ pre.conns[r.c].authed /\ ~obs.conns[r.c].authed
                         THEN {Tag("run", "unregistered", "", "")} ELSE {})
    IN IF r.cmd.verb = "RAW" THEN runTags \cup rawTags \cup (InvTags(obs) \ InvTags(pre))
       ELSE IF ~WF(pre) \/ (r.c \notin DOMAIN pre.conns /\ r.cmd.verb # "!open")
       THEN runTags \cup (InvTags(obs) \ InvTags(pre)) \cup {Tag("run", "skipped", "", "")}
       ELSE LET R == Apply(pre, r.c, r.cmd) IN
            (* lines for a connection whose client does not read are produced but cannot be observed *)
            LET stalledC == {d \in DOMAIN pre.conns : pre.conns[d].stalled} \cup {d \in DOMAIN R.st.conns : R.st.conns[d].stalled}
                expOut == SelectSeq(R.out, LAMBDA m : m.to \notin stalledC)
            IN runTags \cup StateTags(R.st, obs) \cup ForeignTags(r.c, pre, R.st, obs)
                       \cup OutTagsFor(r.c, expOut, r.outs) \cup (InvTags(obs) \ InvTags(pre))

Report(k, tags) ==
    LET r == Rec[k]
        cfg == CfgOf(Rec[ResetIdx(k)].cfg)
        pre == FromSnap(Rec[k - 1].post, cfg)
        ctx == Ctx(pre, r.c, r.cmd)
        died == \E t \in tags : t.t = "run" /\ t.a \in {"dead", "panic"}
        (* a task that died leaves a ghost user and a stale slot: consequences, not causes *)
        tags2 == IF died THEN {t \in tags : ~(t.t = "inv" \/ (t.t = "st" /\ t.a \in {"conns", "connCnt"})
                                               \/ (t.t = "out" /\ t.b = "EOF"))}
                 ELSE tags
        owners == {P \in AllProps : \E t \in tags2 : Owns(P, ctx, t)}
        skipped == Tag("run", "skipped", "", "") \in tags \/ r.cmd.verb = "RAW"
        R == Apply(pre, r.c, r.cmd)
        stalledC == {d \in DOMAIN pre.conns : pre.conns[d].stalled}
        exp == IF skipped THEN <<>> ELSE SelectSeq(R.out, LAMBDA m : m.to \notin stalledC)
    IN PrintT(<<"MISMATCH", ToJson(
          [ idx |-> k, b |-> r.b, step |-> r.i, c |-> r.c, cmd |-> r.cmd,
            owners |-> SetToSeq(owners),
            tags |-> SetToSeq({TagStr(t) : t \in tags}),
            missing |-> SetToSeq(MissingMsgs(exp, r.outs)),
            extra |-> SetToSeq(ExtraMsgs(exp, r.outs)),
            panics |-> r.panics, issue |-> r.issue ])>>)

Check(k) ==
    IF "reset" \in DOMAIN Rec[k] THEN TRUE
    ELSE IF "pathissue" \in DOMAIN Rec[k] THEN PrintT(<<"PATHISSUE", ToJson(Rec[k])>>)
    ELSE LET tags == StepTags(k) IN
         IF tags = {} THEN TRUE
         ELSE IF tags = {Tag("run", "skipped", "", "")} THEN PrintT(<<"SKIPPED", k>>)
         ELSE Report(k, tags)

Init == i = 1
Next == i <= Len(Rec) /\ Check(i) /\ i' = i + 1
Spec == Init /\ [][Next]_vars

(* acceptance: the whole recording was consumed *)
Consumed == TLCGet("stats").diameter = Len(Rec) + 1
=============================================================================
