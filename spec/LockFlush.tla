------------------------------- MODULE LockFlush -------------------------------
(***************************************************************************)
(* Design-level model behind the last clause of C05 ("no other connection  *)
(* is closed, stalled or deprived of messages as a consequence") and the   *)
(* liveness clause of C18: why one client that stops reading cannot hold   *)
(* up the others.                                                          *)
(*                                                                         *)
(* In the code every handler writes its replies into a per-connection      *)
(* BufferedLineStream while it holds the state lock and MainState::process *)
(* flushes that buffer to the socket only after the handler has returned,  *)
(* i.e. after the lock is released (src/utils.rs BufferedLineStream,       *)
(* src/state/mod.rs process).  A socket has a bounded buffer; a client may *)
(* stop reading at any time.                                               *)
(*                                                                         *)
(* FlushUnderLock = FALSE is the code; TRUE is the variant in which a long *)
(* reply is pushed to the socket from inside the handler (the seeded       *)
(* change agent2-c05).  TLC shows: with FALSE no reachable state has a     *)
(* lock holder waiting for a socket, and every connection whose own client *)
(* keeps reading gets the lock again and again; with TRUE a wedged state   *)
(* is reachable (config LockFlush_variant.cfg expects the violation).      *)
(* The binding to the code is the stall scenario "selfflood" (bin/special) *)
(* together with the hook that timestamps a pending flush.                 *)
(***************************************************************************)
EXTENDS Naturals, FiniteSets
CONSTANTS
    \* @type: Set(Str);
    Conns,
    \* @type: Int;
    Cap,
    \* @type: Int;
    MaxBuf,
    \* @type: Bool;
    FlushUnderLock
VARIABLES
    \* @type: Str;
    lock,
    \* @type: Str -> Str;
    pc,
    \* @type: Str -> Int;
    buf,
    \* @type: Str -> Int;
    sock,
    \* @type: Str -> Bool;
    reads
vars == <<lock, pc, buf, sock, reads>>

Init == /\ lock = "none"
        /\ pc = [c \in Conns |-> "idle"]
        /\ buf = [c \in Conns |-> 0]
        /\ sock = [c \in Conns |-> 0]
        /\ reads = [c \in Conns |-> TRUE]

(* a line arrives on c: its task takes the state lock and runs the handler *)
Acquire(c) == /\ pc[c] = "idle" /\ lock = "none"
              /\ lock' = c /\ pc' = [pc EXCEPT ![c] = "locked"]
              /\ UNCHANGED <<buf, sock, reads>>
(* the handler feeds one more reply line into the buffered stream *)
Produce(c) == /\ pc[c] = "locked" /\ buf[c] < MaxBuf
              /\ buf' = [buf EXCEPT ![c] = @ + 1]
              /\ pc' = [pc EXCEPT ![c] = IF FlushUnderLock /\ buf[c] + 1 = MaxBuf THEN "flushlocked" ELSE "locked"]
              /\ UNCHANGED <<lock, sock, reads>>
(* variant only: the long reply is written out while the lock is still held *)
PushLocked(c) == /\ pc[c] = "flushlocked" /\ sock[c] < Cap /\ buf[c] > 0
                 /\ sock' = [sock EXCEPT ![c] = @ + 1] /\ buf' = [buf EXCEPT ![c] = @ - 1]
                 /\ pc' = [pc EXCEPT ![c] = IF buf[c] = 1 THEN "locked" ELSE "flushlocked"]
                 /\ UNCHANGED <<lock, reads>>
(* the handler returns: the lock is released, then the buffer is flushed *)
Release(c) == /\ pc[c] = "locked"
              /\ lock' = "none" /\ pc' = [pc EXCEPT ![c] = IF buf[c] > 0 THEN "flushing" ELSE "idle"]
              /\ UNCHANGED <<buf, sock, reads>>
Push(c) == /\ pc[c] = "flushing" /\ sock[c] < Cap /\ buf[c] > 0
           /\ sock' = [sock EXCEPT ![c] = @ + 1] /\ buf' = [buf EXCEPT ![c] = @ - 1]
           /\ pc' = [pc EXCEPT ![c] = IF buf[c] = 1 THEN "idle" ELSE "flushing"]
           /\ UNCHANGED <<lock, reads>>
(* the client side *)
ClientRead(c) == /\ reads[c] /\ sock[c] > 0
                 /\ sock' = [sock EXCEPT ![c] = @ - 1] /\ UNCHANGED <<lock, pc, buf, reads>>
Stall(c) == /\ reads[c] /\ reads' = [reads EXCEPT ![c] = FALSE] /\ UNCHANGED <<lock, pc, buf, sock>>

Next == \E c \in Conns : Acquire(c) \/ Produce(c) \/ PushLocked(c) \/ Release(c) \/ Push(c) \/ ClientRead(c) \/ Stall(c)

Spec == /\ Init /\ [][Next]_vars
        /\ \A c \in Conns : /\ SF_vars(Acquire(c)) /\ WF_vars(Release(c)) /\ WF_vars(Push(c)) /\ WF_vars(PushLocked(c))
                            /\ WF_vars(ClientRead(c))

TypeOK == /\ lock \in Conns \cup {"none"}
          /\ \A c \in Conns : buf[c] \in 0..MaxBuf /\ sock[c] \in 0..Cap
(* for Apalache: any positive capacities (the safety part holds for every buffer size, not only the TLC constants) *)
ConstInit == /\ Conns = {"a", "b", "c", "d"} /\ Cap \in Nat /\ Cap > 0 /\ MaxBuf \in Nat /\ MaxBuf > 0 /\ FlushUnderLock = FALSE
ConstInitVariant == /\ Conns = {"a", "b", "c", "d"} /\ Cap \in Nat /\ Cap > 0 /\ MaxBuf \in Nat /\ MaxBuf > 0 /\ FlushUnderLock = TRUE
(* inductive invariant: the lock and the program counters agree, and nobody but the holder is inside a handler *)
IndInv == /\ lock \in Conns \cup {"none"}
          /\ pc \in [Conns -> {"idle", "locked", "flushlocked", "flushing"}]
          /\ buf \in [Conns -> Nat] /\ sock \in [Conns -> Nat] /\ reads \in [Conns -> BOOLEAN]
          /\ \A c \in Conns : buf[c] <= MaxBuf /\ sock[c] <= Cap
          /\ \A c \in Conns : pc[c] \in {"locked", "flushlocked"} <=> lock = c
          /\ ~FlushUnderLock => \A c \in Conns : pc[c] # "flushlocked"
(* no handler waits for a socket while it holds the state lock *)
NoSocketWaitUnderLock == \A c \in Conns : lock = c => pc[c] = "locked"
(* the server is wedged: the lock holder waits for a client that will never read *)
Wedged == \E c \in Conns : lock = c /\ pc[c] = "flushlocked" /\ sock[c] = Cap /\ ~reads[c]
NeverWedged == ~Wedged
(* every connection whose own client keeps reading is served again and again whatever the other clients do, *)
(* and its replies reach the socket                                                                       *)
Served == \A d \in Conns : [](reads[d]) => []<>(lock = d)
OwnOutputFlows == \A d \in Conns : [](reads[d]) => []<>(buf[d] = 0)
=============================================================================
