SPECIFICATION Spec
CONSTANTS
  Conns = {"a", "b", "c"}
  Cap = 2
  MaxBuf = 3
  FlushUnderLock = TRUE
INVARIANT TypeOK
INVARIANT NeverWedged
CHECK_DEADLOCK FALSE
