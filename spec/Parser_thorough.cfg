CONSTANTS
LineLen = 6
