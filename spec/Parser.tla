------------------------------- MODULE Parser -------------------------------
(***************************************************************************)
(* C13: the IRC line grammar as the property states it - optional ':'source,*)
(* command, space-separated middle parameters, a final ' :'-introduced      *)
(* trailing parameter that may contain spaces and colons - as a reference   *)
(* tokeniser over strings; the relay serialiser and its round trip; the     *)
(* verb/arity table.  TLC enumerates every line over a small character      *)
(* repertoire up to a length bound and exports the expected reading of each *)
(* as a conformance vector for Message::from_shared_str and                 *)
(* Command::from_message.                                                   *)
(***************************************************************************)
EXTENDS IrcUtil, Json
CONSTANTS LineLen

Alpha == {"a", "Z", "1", " ", ":", ",", "#", "!", "@"}

RECURSIVE Strs(_, _)
Strs(alpha, n) == IF n = 0 THEN {""} ELSE LET S == Strs(alpha, n - 1) IN S \cup {s \o c : s \in S, c \in alpha}

RECURSIVE SkipSp(_, _)
SkipSp(s, i) == IF i <= Len(s) /\ Chr(s, i) = " " THEN SkipSp(s, i + 1) ELSE i
RECURSIVE WordEnd(_, _)
WordEnd(s, i) == IF i <= Len(s) /\ Chr(s, i) # " " THEN WordEnd(s, i + 1) ELSE i

RECURSIVE Params(_, _)
Params(s, i) ==
    LET j == SkipSp(s, i) IN
    IF j > Len(s) THEN <<>>
    ELSE IF Chr(s, j) = ":" /\ j > i THEN << SubSeq(s, j + 1, Len(s)) >>      \* ' :' introduces the trailing parameter
    ELSE LET e == WordEnd(s, j) IN << SubSeq(s, j, e - 1) >> \o Params(s, e)

IsLetter(ch) == ch \in {"a", "Z"}
IsDigit(ch) == ch \in {"1"}
GoodCommand(w) == Len(w) > 0 /\ ((\A k \in 1..Len(w) : IsLetter(Chr(w, k))) \/ (Len(w) = 3 /\ \A k \in 1..3 : IsDigit(Chr(w, k))))
GoodSource(w) == ~HasChr(w, ":") /\
                 (HasChr(w, "!") /\ HasChr(w, "@") => FirstIdx(w, "!") < FirstIdx(w, "@"))

(* the reading of one line *)
Read(line) ==
    LET i0 == SkipSp(line, 1) IN
    IF i0 > Len(line) THEN [kind |-> "empty"]
    ELSE LET hasSrc == Chr(line, i0) = ":"
             se == WordEnd(line, i0)
             src == SubSeq(line, i0 + 1, se - 1)
             i1 == IF hasSrc THEN SkipSp(line, se) ELSE i0
             ce == WordEnd(line, i1)
             cmd == SubSeq(line, i1, ce - 1)
         IN IF hasSrc /\ ~GoodSource(src) THEN [kind |-> "malformed"]
            ELSE IF i1 > Len(line) THEN [kind |-> "malformed"]
            ELSE IF ~GoodCommand(cmd) THEN [kind |-> "malformed"]
            ELSE [kind |-> "message", source |-> IF hasSrc THEN <<src>> ELSE <<>>, command |-> cmd,
                  params |-> Params(line, ce)]

(* the relay serialiser: the message as received, with the sender's source in front *)
Serialise(src, command, params) ==
    LET n == Len(params)
        last == params[n]
        needColon == last = "" \/ HasChr(last, ":") \/ HasChr(last, " ")
    IN ":" \o src \o " " \o command \o
       (IF n = 0 THEN ""
        ELSE JoinWith([k \in 1..(n - 1) |-> " " \o params[k]], "") \o (IF needColon THEN " :" ELSE " ") \o last)

(* round trip: what a receiver reads back is what the originator sent *)
Middles == {"a", "#a", "a:1", "a,Z", "1"}
Lasts == {"", "a", ":a", "a b", " a", "a:b :c", "::", "a "}
RoundTrip ==
    \A n \in 0..2 : \A ms \in [1..n -> Middles] : \A l \in Lasts :
        LET r == Read(Serialise("n!u@h", "Za", ms \o <<l>>)) IN
        r.kind = "message" /\ r.source = <<"n!u@h">> /\ r.command = "Za" /\ r.params = ms \o <<l>>
ASSUME RoundTrip

(* verb / minimal arity table *)
MinParams == [v \in {"CAP", "PASS", "NICK", "PING", "PONG", "JOIN", "PART", "TOPIC", "CONNECT", "STATS", "MODE", "WHO",
                     "WHOIS", "WHOWAS", "USERHOST", "WALLOPS", "ISON"} |-> 1]
             @@ [v \in {"OPER", "INVITE", "KICK", "PRIVMSG", "NOTICE", "KILL", "SQUIT"} |-> 2]
             @@ [v \in {"USER"} |-> 4]
             @@ [v \in {"AUTHENTICATE", "QUIT", "NAMES", "LIST", "MOTD", "VERSION", "ADMIN", "LUSERS", "TIME", "LINKS", "HELP",
                        "INFO", "REHASH", "RESTART", "AWAY", "DIE"} |-> 0]

ExpJson(line) ==
    LET r == Read(line) IN
    IF r.kind = "empty" THEN [line |-> line, exp |-> [msg |-> "Empty"]]
    ELSE IF r.kind = "malformed" THEN [line |-> line, exp |-> [exec |-> FALSE]]
    ELSE [line |-> line, exp |-> [msg |-> "ok", source |-> r.source, command |-> r.command, params |-> r.params]]

ASSUME \A l \in Strs(Alpha, LineLen) : PrintT(<<"PARSE", ToJson(ExpJson(l))>>)
ASSUME \A v \in DOMAIN MinParams : PrintT(<<"ARITY", ToJson([verb |-> v, min |-> MinParams[v]])>>)
=============================================================================
