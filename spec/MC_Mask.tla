------------------------------- MODULE MC_Mask -------------------------------
(* C14 on the wire: masks whose literal runs are longer than the remaining text, consecutive and *)
(* leading/trailing wildcards, multi-byte characters under '?', incomplete masks that must be     *)
(* normalised - through +b/+e/+I, JOIN, PRIVMSG, OPER, a configured user mask, WHO and WHOIS      *)
EXTENDS IrcModel
A == "127.0.0.1"
B == "127.0.0.2"
C == "127.0.0.3"
D == "127.0.0.4"
Cfg == [BaseCfg EXCEPT !.operators = << [name |-> "god", pass |-> "godpass", mask |-> <<"z??!*@127.0.0.?">>] >>,
                       !.users = << [name |-> "reg1", nick |-> "reg1", pass |-> <<>>, mask |-> <<"a*a!*@*">>] >>]
Pre == Reg(A, "alice", "u1") \o Reg(B, "a", "u2") \o Reg(C, "zoë", "u3") \o << St(D, "!open", <<>>) >>
       \o << St(A, "JOIN", <<<<"#one">>>>) >>
Masks == {"a*a!*@*", "*!*@*.very.long.host.example.org", "zo?!*@*", "z??", "*", "a", "?", "**a**!*@*", "*a", "a*",
          "zoë@127.0.0.3", "a!~u2", "??*!*@127.0.0.2", "*!*u3@*", ""}
M(g1) == St(A, "MODE", <<<<"#one">>, g1>>)
Acts == { M(<<"+b", m>>) : m \in Masks \ {""} } \cup { M(<<"+e", m>>) : m \in {"a", "zo?!*@*", "*!*@127.0.0.2"} }
        \cup { M(<<"+I", m>>) : m \in {"a*a", "?!*@*"} } \cup { M(<<"+i">>), M(<<"b">>), M(<<"-b", "a">>), M(<<"-b", "*">>), M(<<>>),
                 M(<<"-I", "a*a">>), M(<<"-I", "?!*@*">>), M(<<"-e", "a">>), M(<<"-e", "zo?">>), M(<<"-b", "zoë@127.0.0.3">>), M(<<"+I">>), M(<<"+e">>) }
        \cup { St(c, "JOIN", <<<<"#one">>>>) : c \in {B, C} } \cup { St(c, "PRIVMSG", <<<<"#one">>, <<"hi">>>>) : c \in {A, B, C} }
        \cup { St(c, "WHO", <<<<m>>>>) : c \in {A, C}, m \in {"a*a", "*a", "z??", "zo?", "?", "*!*@127.0.0.?", "a*a*a*a*a*a*b", "*ë", "*127.0.0.2", "*~u?*", "*eal*u3"} }
        \cup { St(c, "WHOIS", <<<<m>>>>) : c \in {A, C}, m \in {"a*a", "zo?", "?", "*"} }
        \cup { St(c, "OPER", <<<<"god">>, <<"godpass">>>>) : c \in {A, B, C} }
        \cup { St(B, "NICK", <<<<"abba">>>>), St(A, "WHO", <<<<"abba!*@*">>>>), St(A, "WHO", <<<<"a!*@*">>>>) }   \* the text masks are matched against follows a rename
        \cup { St(D, "NICK", <<<<"a">>>>), St(D, "NICK", <<<<"abba">>>>), St(D, "NICK", <<<<"aa">>>>), St(D, "USER", <<<<"reg1">>, <<"R">>>>) }
Steps == Acts
Init == InitWith(Cfg, Pre)
Next == NextWith(Steps)
Spec == Init /\ [][Next]_vars
Depth == 3
DepthT == 3
Constraint == Len(hist) <= Len(Pre) + Depth
ASSUME PrintT(<<"CFG", ToJson(CfgJson(Cfg))>>)
=============================================================================
