------------------------------- MODULE MC_Query -------------------------------
(* C19 (presence) and general coverage of the query commands: a world with an operator, an  *)
(* away user, an invisible user, a user that renames / leaves (WHOWAS history), admin fields *)
(* configured; then every query form: USERHOST / ISON with several, repeated, unknown and   *)
(* differently-cased nicknames, WHOWAS with counts, WHOIS with comma lists / masks / a      *)
(* server argument, WHO with masks, STATS letters, LUSERS, and the server-information       *)
(* commands with and without a server argument.                                             *)
EXTENDS IrcModel
A == "127.0.0.1"
B == "127.0.0.2"
C == "127.0.0.3"
D == "127.0.0.4"
E == "127.0.0.5"
Cfg == [BaseCfg EXCEPT !.operators = << [name |-> "god", pass |-> "godpass", mask |-> <<>>] >>,
                       !.admin_info2 = <<"second line">>, !.admin_email = <<"admin@irc.irc">>,
                       !.motd = "Message: of the day"]
Pre == Reg(A, "alice", "u1") \o Reg(B, "bob", "u2") \o Reg(C, "carol", "u3") \o Reg(D, "dave", "u4")
       \o << St(A, "JOIN", <<<<"#one">>>>), St(B, "JOIN", <<<<"#one">>>>), St(D, "JOIN", <<<<"#two">>>>),
             St(E, "!open", <<>>), St(E, "NICK", <<<<"erin">>>>) >>
Change == { St(A, "OPER", <<<<"god">>, <<"godpass">>>>), St(A, "AWAY", <<<<"gone fishing">>>>), St(A, "AWAY", <<>>),
            St(B, "MODE", <<<<"bob">>, <<"+i">>>>), St(D, "NICK", <<<<"david">>>>), St(D, "NICK", <<<<"dave">>>>), St(D, "QUIT", <<>>),
            St(A, "MODE", <<<<"alice">>, <<"-o">>>>), St(B, "PART", <<<<"#one">>>>), St(D, "MODE", <<<<"#two">>, <<"+s">>>>),
            St(B, "CAP", <<<<"LS">>>>), St(B, "CAP", <<<<"END">>>>), St(B, "QUIT", <<>>), St(E, "USER", <<<<"u5">>, <<"Real u5">>>>) }   \* leave, then arrive: the maximum stays the high-water mark
Queries(c) ==
    { St(c, "USERHOST", <<<<"alice", "bob", "nobody", "dave">>>>), St(c, "USERHOST", <<<<"alice", "alice", "ALICE">>>>),
      St(c, "USERHOST", <<<<"david">>>>),
      St(c, "ISON", <<<<"alice", "bob", "nobody", "dave", "david">>>>), St(c, "ISON", <<<<"Bob", "bob", "bob">>>>),
      St(c, "WHOWAS", <<<<"dave">>>>), St(c, "WHOWAS", <<<<"dave">>, <<"1">>>>), St(c, "WHOWAS", <<<<"david">>, <<"0">>>>),
      St(c, "WHOWAS", <<<<"dave">>, <<"5">>, <<"irc.irc">>>>), St(c, "WHOWAS", <<<<"nobody">>>>),
      St(c, "WHOIS", <<<<"alice", "bob">>>>), St(c, "WHOIS", <<<<"d*">>>>), St(c, "WHOIS", <<<<"irc.irc">>, <<"alice">>>>),
      St(c, "WHOIS", <<<<"nobody">>>>), St(c, "WHOIS", <<<<"dave", "dave">>>>),
      St(c, "WHO", <<<<"*">>>>), St(c, "WHO", <<<<"#one">>>>), St(c, "WHO", <<<<"#two">>>>), St(c, "WHO", <<<<"*u2*">>>>), St(c, "WHO", <<<<"bob">>>>),
      St(c, "LUSERS", <<>>), St(c, "LIST", <<>>), St(c, "NAMES", <<>>),
      St(c, "STATS", <<<<"u">>>>), St(c, "STATS", <<<<"o">>>>), St(c, "STATS", <<<<"m">>>>), St(c, "STATS", <<<<"l">>, <<"irc.irc">>>>),
      St(c, "STATS", <<<<"x">>>>), St(c, "STATS", <<>>),
      St(c, "TIME", <<>>), St(c, "TIME", <<<<"irc.irc">>>>), St(c, "VERSION", <<>>), St(c, "VERSION", <<<<"*.irc">>>>),
      St(c, "ADMIN", <<>>), St(c, "ADMIN", <<<<"irc.irc">>>>), St(c, "MOTD", <<>>), St(c, "MOTD", <<<<"other.net">>>>),
      St(c, "INFO", <<>>), St(c, "LINKS", <<>>), St(c, "LINKS", <<<<"*">>>>), St(c, "LINKS", <<<<"irc.irc">>, <<"*">>>>),
      St(c, "HELP", <<>>), St(c, "HELP", <<<<"COMMANDS">>>>), St(c, "HELP", <<<<"NOSUCH">>>>), St(c, "HELP", <<<<"MAIN">>>>),
      St(c, "CONNECT", <<<<"other.net">>, <<"6667">>>>), St(c, "CONNECT", <<<<"other.net">>, <<"99999">>>>), St(c, "REHASH", <<>>), St(c, "RESTART", <<>>),
      St(c, "PING", <<<<"token">>>>), St(c, "PING", <<>>), St(c, "PONG", <<<<"x">>>>), St(c, "MODE", <<<<"alice">>>>) }
Enabled(st) == st.c \in DOMAIN S.conns
Steps == {st \in Change \cup Queries(A) \cup Queries(C) : Enabled(st)}
Init == InitWith(Cfg, Pre)
Next == NextWith(Steps)
Spec == Init /\ [][Next]_vars
Depth == 4
DepthT == 5
Constraint == Len(hist) <= Len(Pre) + Depth
ASSUME PrintT(<<"CFG", ToJson(CfgJson(Cfg))>>)
=============================================================================
