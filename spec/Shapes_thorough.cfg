CONSTANTS
MaxArity = 2
Rich = TRUE
