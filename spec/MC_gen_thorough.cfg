SPECIFICATION Spec
VIEW ModelView
CONSTRAINT Constraint
ACTION_CONSTRAINT ExportEdge
CHECK_DEADLOCK FALSE
CONSTANT Depth <- DepthT
