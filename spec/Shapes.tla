------------------------------- MODULE Shapes -------------------------------
(***************************************************************************)
(* C05: the product  verb x arity x parameter shape per position.  TLC     *)
(* enumerates it and exports one raw line per element; the harness sends   *)
(* each line in every session-state class and observes the EFFECT (the     *)
(* sending connection stays open and registered, nobody else is closed or  *)
(* stalled, no handler aborts) - replies are deliberately not compared.    *)
(* Totality: the specification's own parser must classify every such line  *)
(* whose parameters it can represent (checked for the structured subset).  *)
(***************************************************************************)
EXTENDS IrcUtil, Json
CONSTANTS MaxArity, Rich

Verbs == {"CAP", "AUTHENTICATE", "PASS", "NICK", "USER", "PING", "PONG", "OPER", "JOIN", "PART", "TOPIC", "NAMES", "LIST",
          "INVITE", "KICK", "MOTD", "VERSION", "ADMIN", "CONNECT", "LUSERS", "TIME", "STATS", "LINKS", "HELP", "INFO", "MODE",
          "PRIVMSG", "NOTICE", "WHO", "WHOIS", "WHOWAS", "KILL", "REHASH", "RESTART", "SQUIT", "AWAY", "USERHOST", "WALLOPS", "ISON", "DIE", "FOO"}

RECURSIVE Rep(_, _)
Rep(s, n) == IF n = 0 THEN "" ELSE s \o Rep(s, n - 1)

BaseShapes == { "alice", "nobody", "carol", "#one", "#none", "#one,#one", "alice,alice,nobody", "alice,carol,alice", "*", "0", "+o-o+v", ":" }
RichShapes == { Rep("x", 600), "zażółć", "*!*@*", "***?*?**", "a*a!*@*.very.long.host.example.org", "18446744073709551616", "-1",
                "+b", "+kl-k+l", "-", ",", "#one,,#none", "@#one", "~&@%+#one", "&", "#", "irc.irc", "u", "+iwoOr-iwoOr", "LS", "REQ" }
ShapesUsed == IF Rich THEN BaseShapes \cup RichShapes ELSE BaseShapes

RECURSIVE ParamLists(_)
ParamLists(n) == IF n = 0 THEN {<<>>} ELSE {Append(p, s) : p \in ParamLists(n - 1), s \in ShapesUsed}
AllParamLists == UNION {ParamLists(n) : n \in 0..MaxArity}

Line(v, ps) == v \o (IF ps = <<>> THEN "" ELSE " " \o JoinWith(ps, " "))
ASSUME \A v \in Verbs : \A ps \in AllParamLists : PrintT(<<"LINE", ToJson([verb |-> v, n |-> Len(ps), line |-> Line(v, ps)])>>)
(* a trailing free-text parameter in addition *)
ASSUME \A v \in Verbs : \A ps \in ParamLists(1) :
          PrintT(<<"LINE", ToJson([verb |-> v, n |-> 2, line |-> Line(v, ps) \o " :trailing text: with colons "])>>)
(* mode strings of several letters with their arguments, in the orders in which refusals and acceptances can mix *)
ModeStrs == {"+ol", "+hl", "+al", "+ql", "+vl", "+lo", "+kl", "+bl", "+ov", "-ol", "+olk", "+lk", "+o-o+l", "+tnl", "+Il", "+eb"}
ModeArgs == {"alice 10", "10 alice", "alice", "alice bob", "10", "alice 10 key", "", "alice alice 5"}
ASSUME \A ms \in ModeStrs : \A ar \in ModeArgs :
          PrintT(<<"LINE", ToJson([verb |-> "MODE", n |-> 3, line |-> "MODE #one " \o ms \o (IF ar = "" THEN "" ELSE " " \o ar)])>>)
=============================================================================
