------------------------------- MODULE GlobVec -------------------------------
(***************************************************************************)
(* C14: the reference semantics of mask matching (IrcUtil!Glob) and of     *)
(* mask completion (IrcUtil!Normalize), enumerated over every mask and     *)
(* every text up to a length bound and exported as conformance vectors for *)
(* the implementation's match_wildcard / normalize_sourcemask.             *)
(* The module also checks algebraic laws of the reference definition so    *)
(* that the oracle itself is not taken on faith.                           *)
(***************************************************************************)
EXTENDS IrcUtil, Json
CONSTANTS MaskLen, TextLen, NormLen

MaskAlpha == {"a", "b", "*", "?", "é"}
TextAlpha == {"a", "b", "é"}
NormAlpha == {"a", "!", "@", "*"}

RECURSIVE Strs(_, _)
Strs(alpha, n) == IF n = 0 THEN {""} ELSE LET S == Strs(alpha, n - 1) IN S \cup {s \o c : s \in S, c \in alpha}

Masks == Strs(MaskAlpha, MaskLen)
Texts == Strs(TextAlpha, TextLen)

(* laws of the reference matcher *)
Laws ==
    /\ \A t \in Texts : Glob("*", t) /\ Glob(t, t) /\ (Glob("", t) <=> t = "")
    /\ \A t \in Texts : Glob("?", t) <=> Len(t) = 1
    /\ \A m \in Strs(MaskAlpha, 2), t \in Strs(TextAlpha, 3) :
          /\ Glob(m \o "*", t) <=> \E k \in 0..Len(t) : Glob(m, Take(t, k))
          /\ Glob("*" \o m, t) <=> \E k \in 0..Len(t) : Glob(m, Drop(t, k))
          /\ Glob("**" \o m, t) <=> Glob("*" \o m, t)
    /\ \A m \in Strs({"a", "b", "é"}, 3), t \in Strs(TextAlpha, 3) : Glob(m, t) <=> m = t
ASSUME Laws

ASSUME PrintT(<<"TEXTS", ToJson([texts |-> SetToSeq(Texts)])>>)
ASSUME \A m \in Masks : PrintT(<<"GLOB", ToJson([m |-> m, ts |-> SetToSeq({t \in Texts : Glob(m, t)})])>>)
ASSUME \A m \in Strs(NormAlpha, NormLen) : PrintT(<<"NORM", ToJson([m |-> m, n |-> Normalize(m)])>>)
(* a normalised mask has all three parts, and normalising is idempotent *)
ASSUME \A m \in Strs(NormAlpha, NormLen) :
          LET n == Normalize(m) IN HasChr(n, "!") /\ HasChr(Drop(n, FirstIdx(n, "!")), "@") /\ Normalize(n) = n
=============================================================================
