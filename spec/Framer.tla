------------------------------- MODULE Framer -------------------------------
(***************************************************************************)
(* C13 (framing): the byte-chunk -> line state machine of the connection   *)
(* reader, over an abstract byte alphabet (N = LF, R = CR, x y = payload). *)
(* Checked: whatever the chunking of the same byte stream, the same lines  *)
(* come out (so the same commands are executed); an unterminated tail at   *)
(* EOF yields no line; a pending line longer than the limit is fatal and   *)
(* nothing after it is delivered.                                          *)
(***************************************************************************)
EXTENDS IrcUtil
CONSTANTS StreamLen, Limit

Bytes == {"x", "y", "N", "R"}
RECURSIVE Strs(_, _)
Strs(alpha, n) == IF n = 0 THEN {""} ELSE LET S == Strs(alpha, n - 1) IN S \cup {s \o c : s \in S, c \in alpha}

StripCR(l) == IF Len(l) > 0 /\ Chr(l, Len(l)) = "R" THEN Take(l, Len(l) - 1) ELSE l

(* the reader: buffer, lines delivered so far, dead after an over-long line *)
Feed(st, chunk) ==
    LET RECURSIVE Go(_, _, _, _)
        Go(buf, lines, dead, i) ==
            IF dead \/ i > Len(chunk) THEN [buf |-> buf, lines |-> lines, dead |-> dead]
            ELSE LET ch == Chr(chunk, i) IN
                 IF ch = "N" THEN Go("", Append(lines, StripCR(buf)), FALSE, i + 1)
                 ELSE IF Len(buf) + 1 > Limit THEN [buf |-> "", lines |-> lines, dead |-> TRUE]
                 ELSE Go(buf \o ch, lines, FALSE, i + 1)
    IN Go(st.buf, st.lines, st.dead, 1)
Run(chunks) == FoldLeft(Feed, [buf |-> "", lines |-> <<>>, dead |-> FALSE], chunks)

(* all ways to cut a string into at most three chunks *)
Cuts(s) == {<<s>>} \cup { <<Take(s, i), Drop(s, i)>> : i \in 1..(Len(s) - 1) }
           \cup { <<Take(s, i), SubSeq(s, i + 1, j), Drop(s, j)>> : i \in 1..(Len(s) - 1), j \in 2..(Len(s) - 1) }

ChunkingInvariant ==
    \A s \in Strs(Bytes, StreamLen) :
       LET whole == Run(<<s>>) IN
       \A c \in Cuts(s) : (\A k \in DOMAIN c : Len(c[k]) > 0) =>
           LET r == Run(c) IN r.lines = whole.lines /\ r.dead = whole.dead
TailDropped == \A s \in Strs({"x", "y"}, 3) : Run(<<"xN" \o s>>).lines = <<"x">>
OverLongFatal == \A s \in Strs(Bytes, 3) :
    LET long == JoinWith([k \in 1..(Limit + 1) |-> "x"], "") IN
    Run(<<"yN" \o long \o "N" \o s>>).lines = <<"y">> /\ Run(<<"yN" \o long \o "N" \o s>>).dead
ASSUME ChunkingInvariant /\ TailDropped /\ OverLongFatal
=============================================================================
