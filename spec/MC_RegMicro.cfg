SPECIFICATION Spec
INVARIANT Inv
INVARIANT LinLemma
CONSTRAINT Bound
CHECK_DEADLOCK FALSE
