SPECIFICATION Spec
CONSTANTS
  NCmds = 5
  MaxForeign = 3
  DrainAfterEvent = TRUE
INVARIANT InOrder
PROPERTY AllAnswered
CHECK_DEADLOCK FALSE
