------------------------------- MODULE MC_RegMicro -------------------------------
(***************************************************************************)
(* C18 / C02 at design level: registration in the grain of atomicity of    *)
(* the code.  NICK on an unregistered connection is two critical sections: *)
(*   NickCheck  (read lock)  - refuse if the nickname is registered, else  *)
(*                             remember it as this connection's claim;     *)
(*   AuthInsert (write lock) - complete registration if everything is      *)
(*                             there, re-checking the nickname.            *)
(* Between the two, any other connection may run any command.  Checked     *)
(* over all interleavings of three connections contending for two          *)
(* nicknames: the ownership and counter invariants, and the linearization  *)
(* lemma: the outcome of the second section is, in state and replies,      *)
(* exactly the outcome of an atomic NICK executed at that moment - so      *)
(* every micro-step behaviour equals a serial one (what TraceLin demands   *)
(* of the implementation).                                                 *)
(***************************************************************************)
EXTENDS IrcProps

VARIABLES S, pc
mvars == <<S, pc>>
A == "127.0.0.1"
B == "127.0.0.2"
O == "127.0.0.3"
Conns3 == {A, B}
Cfg == [ name |-> "irc.irc", network |-> "IRCnetwork", motd |-> "Hello, world!",
         admin_info |-> "x", admin_info2 |-> <<>>, admin_email |-> <<>>,
         password |-> <<"srvpass">>, max_joins |-> <<>>, max_connections |-> <<>>,
         default_modes |-> {"i"}, tls |-> FALSE, operators |-> <<>>, users |-> <<>>, channels |-> <<>> ]

C(verb, p) == [verb |-> verb, p |-> p]
Cmds == { C("PASS", <<<<"srvpass">>>>), C("PASS", <<<<"bad">>>>), C("USER", <<<<"u">>, <<"R">>>>),
          C("NICK", <<<<"ann">>>>), C("NICK", <<<<"ben">>>>), C("CAP", <<<<"LS">>>>), C("CAP", <<<<"END">>>>),
          C("QUIT", <<>>) }

Init == S = InitState(Cfg) /\ pc = [c \in Conns3 |-> "idle"]

Open(c) == c \notin DOMAIN S.conns /\ S' = Apply(S, c, C("!open", <<>>)).st /\ pc' = [pc EXCEPT ![c] = "idle"]
Close(c) == c \in DOMAIN S.conns /\ S' = Teardown(S, c) /\ pc' = [pc EXCEPT ![c] = "idle"]

UnregNick(c, cmd) == cmd.verb = "NICK" /\ ~S.conns[c].authed
Command(c, cmd) ==
    /\ c \in DOMAIN S.conns /\ pc[c] = "idle"
    /\ IF UnregNick(c, cmd)
       THEN (* first critical section *)
            LET n == cmd.p[1][1]
                k == S.conns[c]
            IN IF n \in DOMAIN S.users THEN UNCHANGED mvars
               ELSE LET k1 == [k EXCEPT !.nick = <<n>>] IN
                    /\ S' = SetConn(S, c, [k1 EXCEPT !.src = SrcOf(k1, c)])
                    /\ pc' = [pc EXCEPT ![c] = "auth"]
       ELSE S' = Apply(S, c, cmd).st /\ pc' = pc

(* second critical section *)
AuthInsert(c) ==
    /\ c \in DOMAIN S.conns /\ pc[c] = "auth"
    /\ S' = Authenticate(S, c).st
    /\ pc' = [pc EXCEPT ![c] = "idle"]

Next == \E c \in Conns3 : Open(c) \/ Close(c) \/ AuthInsert(c) \/ \E cmd \in Cmds : Command(c, cmd)
Spec == Init /\ [][Next]_mvars

(* the linearization lemma, evaluated in every state where a connection sits between the two sections *)
Unclaim(c) == LET k1 == [S.conns[c] EXCEPT !.nick = <<>>] IN SetConn(S, c, [k1 EXCEPT !.src = SrcOf(k1, c)])
(* does the second section reach the nickname re-check, or is it decided by connection-local data alone *)
LocalDecision(c) ==
    LET k == S.conns[c]
        ui == UserCfgIdx(S, k.uname[1])
        ucfg == S.cfg.users[ui]
        reqpw == IF ui # 0 /\ ucfg.pass # <<>> THEN ucfg.pass ELSE S.cfg.password
    IN k.capneg \/ k.uname = <<>>
       \/ (ui # 0 /\ ucfg.mask # <<>> /\ ~Glob(ucfg.mask[1], k.src))
       \/ ~(reqpw = <<>> \/ (k.pass # <<>> /\ k.pass[1] = reqpw[1]))
LinLemma ==
    \A c \in DOMAIN S.conns : pc[c] = "auth" =>
       LET k == S.conns[c]
           micro == Authenticate(S, c)
           atomic == HNick(Unclaim(c), c, k.nick[1])
           alone == Authenticate([S EXCEPT !.users = EmptyFn, !.chans = EmptyFn, !.wallops = {}], c)
       IN IF LocalDecision(c)
          THEN (* not ready, mask mismatch or wrong password: the outcome does not depend on what others did *)
               (* since the first section, so the command is linearized there                              *)
               /\ micro.out = alone.out
               /\ (c \in DOMAIN micro.st.conns) = (c \in DOMAIN alone.st.conns)
               /\ micro.st.users = S.users
          ELSE micro.st = atomic.st /\ BagOf(micro.out) = BagOf(atomic.out)

Inv == InvOwner(S) /\ InvCounters(S) /\ InvSym(S) /\ InvWallops(S) /\ WF(S)
Bound == Cardinality(DOMAIN S.whowas) <= 1 /\ \A n \in DOMAIN S.whowas : Len(S.whowas[n]) <= 1
=============================================================================
