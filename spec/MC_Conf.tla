------------------------------- MODULE MC_Conf -------------------------------
(* C20, second half: once started, each documented setting governs behaviour.  One configuration    *)
(* that sets them all - network name, MOTD, admin lines, a server password, max_joins, default user *)
(* modes, a predefined user (own password, mask), an operator (mask), a predefined channel (topic,  *)
(* key, modes, a rank list) - and the steps on which each of them shows: the welcome burst, the     *)
(* quota inside one multi-channel JOIN and across JOINs, 221 after registration, registration as    *)
(* the predefined user with the server's / the user's / no password, OPER from a matching and a     *)
(* non-matching source, the predefined channel with and without its key, ranks on every join.       *)
EXTENDS IrcModel
A == "127.0.0.1"
B == "127.0.0.2"
C == "127.0.0.3"
Cfg == [BaseCfg EXCEPT !.network = "ConfNet", !.motd = "configured: motd", !.admin_info2 = <<"line two">>, !.admin_email = <<"root@conf.net">>,
          !.password = <<"srvpass">>, !.max_joins = <<2>>, !.default_modes = {"i", "w"},
          !.users = << [name |-> "reg1", nick |-> "reg1", pass |-> <<"userpass">>, mask |-> <<"*!*@127.0.0.2">>],
                       [name |-> "Reg2", nick |-> "Reg2", pass |-> <<"userpass">>, mask |-> <<>>] >>,
          !.operators = << [name |-> "god", pass |-> "godpass", mask |-> <<"*!*@127.0.0.1">>] >>,
          !.channels = << [ChanCfg("#conf") EXCEPT !.topic = <<"configured topic">>, !.key = <<"ckey">>, !.flags = {"t", "n"}, !.q = {"alice"}, !.o = {"alice"}, !.h = {"bob"}, !.v = {"bob", "alice"}] >>]
Pre == << St(A, "!open", <<>>), St(A, "PASS", <<<<"srvpass">>>>), St(A, "NICK", <<<<"alice">>>>), St(A, "USER", <<<<"u1">>, <<"Real u1">>>>),
          St(B, "!open", <<>>), St(B, "NICK", <<<<"bob">>>>), St(C, "!open", <<>>), St(C, "NICK", <<<<"carol">>>>), St(C, "PASS", <<<<"srvpass">>>>) >>
Acts == { St(B, "PASS", <<<<"userpass">>>>), St(B, "PASS", <<<<"srvpass">>>>), St(B, "USER", <<<<"reg1">>, <<"R">>>>), St(B, "USER", <<<<"u2">>, <<"R">>>>),
          St(C, "USER", <<<<"reg1">>, <<"R">>>>), St(C, "USER", <<<<"u3">>, <<"R">>>>), St(C, "USER", <<<<"Reg2">>, <<"R">>>>), St(C, "USER", <<<<"reg2">>, <<"R">>>>) }
        \cup { St(c, "JOIN", <<<<"#conf">>, <<"ckey">>>>) : c \in {A, B} } \cup { St(A, "JOIN", <<<<"#conf">>>>), St(A, "PART", <<<<"#conf">>>>) }
        \cup { St(c, "JOIN", <<<<"#a", "#b", "#c">>>>) : c \in {A, B} } \cup { St(A, "JOIN", <<<<"#a">>>>), St(A, "JOIN", <<<<"#b", "#conf">>, <<"x", "ckey">>>>), St(A, "PART", <<<<"#a">>>>) }
        \cup { St(c, "OPER", <<<<"god">>, <<"godpass">>>>) : c \in {A, B} }
        \cup { St(c, v, <<>>) : c \in {A, B}, v \in {"MOTD", "ADMIN", "LUSERS", "VERSION"} }
        \cup { St(A, "MODE", <<<<"alice">>>>), St(B, "MODE", <<<<"bob">>>>), St(A, "TOPIC", <<<<"#conf">>>>), St(A, "MODE", <<<<"#conf">>>>), St(A, "NAMES", <<<<"#conf">>>>),
               St(A, "WALLOPS", <<<<"to: +w">>>>), St(A, "WHO", <<<<"*">>>>) }
Enabled(st) == st.c \in DOMAIN S.conns
Steps == {st \in Acts : Enabled(st)}
Init == InitWith(Cfg, Pre)
Next == NextWith(Steps)
Spec == Init /\ [][Next]_vars
Depth == 5
DepthT == 6
Constraint == Len(hist) <= Len(Pre) + Depth
ASSUME PrintT(<<"CFG", ToJson(CfgJson(Cfg))>>)
=============================================================================
