SPECIFICATION LSpec
INVARIANT Observe
CHECK_DEADLOCK FALSE
