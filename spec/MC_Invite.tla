------------------------------- MODULE MC_Invite -------------------------------
(* C09 / C07: an invitation is one admission.  An invite-only channel that is full (+l), keyed or    *)
(* closed by a ban, and a joins quota of one: the invited user is refused for another reason, room  *)
(* is made (PART, KICK, -l, +l n), and the invitation must still be good - once.                    *)
EXTENDS IrcModel
A == "127.0.0.1"
B == "127.0.0.2"
C == "127.0.0.3"
D == "127.0.0.4"
E == "127.0.0.5"
Cfg == [BaseCfg EXCEPT !.max_joins = <<1>>]
Pre == Reg(A, "alice", "u1") \o Reg(B, "bob", "u2") \o Reg(C, "carol", "u3") \o Reg(D, "dave", "u4") \o Reg(E, "zoë", "u5")
       \o << St(A, "JOIN", <<<<"#one">>>>), St(B, "JOIN", <<<<"#one">>>>),
             St(A, "MODE", <<<<"#one">>, <<"+i">>>>), St(A, "MODE", <<<<"#one">>, <<"+l", "2">>>>) >>
M(g1) == St(A, "MODE", <<<<"#one">>, g1>>)
Acts == { St(A, "INVITE", <<<<"dave">>, <<"#one">>>>), St(A, "INVITE", <<<<"carol">>, <<"#one">>>>), St(B, "INVITE", <<<<"dave">>, <<"#one">>>>),
          St(D, "JOIN", <<<<"#one">>>>), St(C, "JOIN", <<<<"#one">>>>), St(D, "JOIN", <<<<"#one">>, <<"key">>>>),
          St(D, "JOIN", <<<<"#two">>>>), St(D, "PART", <<<<"#two">>>>), St(D, "PART", <<<<"#one">>>>), St(D, "JOIN", <<<<"#two", "#one">>>>),
          St(B, "PART", <<<<"#one">>>>), St(A, "KICK", <<<<"#one">>, <<"bob">>>>), St(A, "KICK", <<<<"#one">>, <<"dave">>>>),
          M(<<"-l">>), M(<<"+l", "3">>), M(<<"+k", "key">>), M(<<"-k", "key">>), M(<<"+b", "dave">>), M(<<"-b", "dave">>), M(<<"-i">>),
          M(<<"+I", "*!*@127.0.0.4">>),
          (* one character under '?', however many bytes it has *)
          M(<<"+b", "zo?!*@*">>), M(<<"+e", "z??">>), M(<<"+I", "zo?">>), M(<<"+b", "zo??!*@*">>), St(E, "JOIN", <<<<"#one">>>>), St(E, "PART", <<<<"#one">>>>) }
Enabled(st) == st.c \in DOMAIN S.conns
Steps == {st \in Acts : Enabled(st)}
Init == InitWith(Cfg, Pre)
Next == NextWith(Steps)
Spec == Init /\ [][Next]_vars
Depth == 4
DepthT == 6
Constraint == Len(hist) <= Len(Pre) + Depth
ASSUME PrintT(<<"CFG", ToJson(CfgJson(Cfg))>>)
=============================================================================
