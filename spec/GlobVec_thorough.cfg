CONSTANTS
MaskLen = 5
TextLen = 6
NormLen = 7
