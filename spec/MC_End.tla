------------------------------- MODULE MC_End -------------------------------
(* C06 (also C16, C19): every way a session ends, applied at every reachable state of histories *)
(* with memberships, ranks, user modes, operator status, invitations and away state              *)
EXTENDS IrcModel
A == "127.0.0.1"
B == "127.0.0.2"
C == "127.0.0.3"
Cfg == [BaseCfg EXCEPT !.operators = << [name |-> "god", pass |-> "godpass", mask |-> <<>>] >>,
                       !.channels = << [ChanCfg("#pre") EXCEPT !.h = {"bob"}] >>]
Pre == Reg(A, "alice", "u1") \o Reg(B, "bob", "u2") \o Reg(C, "carol", "u3")
       \o << St(A, "JOIN", <<<<"#one">>>>), St(B, "JOIN", <<<<"#one", "#pre">>>>) >>
N40 == "abcdefghijabcdefghijabcdefghijabcdefghij"
N201 == N40 \o N40 \o N40 \o N40 \o N40 \o "x"     \* longer than the advertised NICKLEN
History ==
    { St(A, "OPER", <<<<"god">>, <<"godpass">>>>), St(B, "MODE", <<<<"bob">>, <<"+iw">>>>), St(A, "MODE", <<<<"alice">>, <<"+w">>>>),
      St(A, "MODE", <<<<"#one">>, <<"+v", "bob">>>>), St(A, "INVITE", <<<<"carol">>, <<"#one">>>>), St(B, "AWAY", <<<<"brb">>>>),
      St(C, "JOIN", <<<<"#two">>>>), St(B, "JOIN", <<<<"#two">>>>), St(B, "NICK", <<<<"bobby">>>>), St(B, "NICK", <<<<N201>>>>) }
EndSteps ==
    UNION { { St(c, "QUIT", <<>>), St(c, "!close", <<>>), St(c, "!rst", <<>>), St(c, "!half", <<<<"PRIVMSG alice :cut">>>>) } : c \in {A, B, C} }
    \cup { St(A, "KILL", <<<<"bob">>, <<"bye bob">>>>), St(A, "KILL", <<<<"bobby">>, <<"bye">>>>), St(A, "KILL", <<<<"alice">>, <<"self">>>>),
           St(A, "KILL", <<<<"carol">>, <<"x">>>>) }
Enabled(st) == st.c \in DOMAIN S.conns
Steps == {st \in History \cup EndSteps : Enabled(st)}
Init == InitWith(Cfg, Pre)
Next == NextWith(Steps)
Spec == Init /\ [][Next]_vars
Depth == 6
DepthT == 9
Constraint == Len(hist) <= Len(Pre) + Depth
ASSUME PrintT(<<"CFG", ToJson(CfgJson(Cfg))>>)
=============================================================================
