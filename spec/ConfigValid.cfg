
