------------------------------- MODULE MC_Life -------------------------------
(* C16: channels created, used, emptied by every kind of exit, re-created; a preconfigured *)
(* channel with topic, flags, key, limit, lists and rank lists persisting while empty        *)
EXTENDS IrcModel
A == "127.0.0.1"
B == "127.0.0.2"
C == "127.0.0.3"
Cfg == [BaseCfg EXCEPT !.max_joins = <<2>>,
          !.operators = << [name |-> "god", pass |-> "godpass", mask |-> <<>>] >>,
          !.channels = << [ChanCfg("#pre") EXCEPT !.topic = <<"configured topic">>, !.flags = {"t", "n"}, !.key = <<"sesame">>,
                               !.limit = <<2>>, !.ban = {"carol!*@*"}, !.exc = {"*!*@127.0.0.3"}, !.invex = {"x!y@z"},
                               !.q = {"alice"}, !.v = {"bob"}, !.h = {"bob"}] >>]
Pre == Reg(A, "alice", "u1") \o Reg(B, "bob", "u2") \o Reg(C, "carol", "u3") \o << St(C, "OPER", <<<<"god">>, <<"godpass">>>>) >>
Use == UNION { { St(c, "JOIN", <<<<"#one">>>>), St(c, "JOIN", <<<<"#pre">>, <<"sesame">>>>), St(c, "JOIN", <<<<"#pre">>>>), St(c, "JOIN", <<<<"&loc">>>>),
                 St(c, "PART", <<<<"#one">>>>), St(c, "PART", <<<<"#pre">>>>) } : c \in {A, B, C} }
       \cup { St(A, "TOPIC", <<<<"#one">>, <<"t1">>>>), St(A, "MODE", <<<<"#one">>, <<"+ikl", "kk", "1">>>>), St(A, "MODE", <<<<"#one">>, <<"+b", "bob">>>>),
              St(A, "MODE", <<<<"#one">>, <<"+o", "bob">>>>), St(A, "MODE", <<<<"#pre">>, <<"-k+m">>>>), St(A, "TOPIC", <<<<"#pre">>, <<"changed">>>>),
              St(A, "KICK", <<<<"#one">>, <<"bob">>>>), St(B, "KICK", <<<<"#one">>, <<"bob">>>>), St(A, "QUIT", <<>>), St(B, "!rst", <<>>),
              St(C, "KILL", <<<<"alice">>, <<"x">>>>), St(C, "KILL", <<<<"bob">>, <<"x">>>>),
              St(C, "MODE", <<<<"#one">>>>), St(C, "LIST", <<>>), St(C, "MODE", <<<<"#pre">>>>), St(C, "LUSERS", <<>>), St(B, "NAMES", <<<<"#pre">>>>) }
Enabled(st) == st.c \in DOMAIN S.conns
Steps == {st \in Use : Enabled(st)}
Init == InitWith(Cfg, Pre)
Next == NextWith(Steps)
Spec == Init /\ [][Next]_vars
Depth == 5
DepthT == 6
Constraint == Len(hist) <= Len(Pre) + Depth
ASSUME PrintT(<<"CFG", ToJson(CfgJson(Cfg))>>)
=============================================================================
