------------------------------- MODULE MC_Kti -------------------------------
(* C09: KICK, TOPIC and INVITE from every actor rank against every victim rank, under +t and +i, *)
(* with lists containing absent, repeated and own names, the actor being the last member          *)
EXTENDS IrcModel
A == "127.0.0.1"
B == "127.0.0.2"
C == "127.0.0.3"
D == "127.0.0.4"
Cfg == BaseCfg
Pre == Reg(A, "alice", "u1") \o Reg(B, "bob", "u2") \o Reg(C, "carol", "u3") \o Reg(D, "dave", "u4")
       \o << St(A, "JOIN", <<<<"#one">>>>), St(B, "JOIN", <<<<"#one">>>>), St(C, "JOIN", <<<<"#one">>>>) >>
M(c, g1) == St(c, "MODE", <<<<"#one">>, g1>>)
Ranks2 == { M(A, <<"+" \o r, n>>) : r \in {"a", "o", "h", "v"}, n \in {"bob", "carol"} }
          \cup { M(A, <<"+t">>), M(A, <<"+i">>), M(A, <<"-o", "alice">>), M(A, <<"-q", "alice">>) }
Acts ==
    { St(c, "KICK", <<<<"#one">>, v>>) : c \in {A, B, C, D}, v \in {<<"carol">>, <<"bob">>, <<"alice">>, <<"bob", "bob">>, <<"nobody", "carol">>, <<"bob", "carol", "bob">>} }
    \cup { St(B, "KICK", <<<<"#one">>, <<"carol">>, <<"get: out">>>>), St(B, "KICK", <<<<"#none">>, <<"carol">>>>),
           St(A, "KICK", <<<<"#one">>, <<"bob", "carol", "alice">>>>) }
    \cup { St(c, "TOPIC", <<<<"#one">>, <<t>>>>) : c \in {A, B, C, D}, t \in {"new: topic", "", ":-)"} }
    \cup { St(c, "TOPIC", <<<<"#one">>>>) : c \in {B, D} }
    \cup { St(c, "INVITE", <<<<w>>, <<"#one">>>>) : c \in {A, B, C, D}, w \in {"dave", "carol", "nobody"} }
    \cup { St(D, "JOIN", <<<<"#one">>>>), St(D, "LIST", <<<<"#one">>>>), St(B, "PART", <<<<"#one">>>>), St(C, "PART", <<<<"#one">>>>) }
Steps == Ranks2 \cup Acts
Init == InitWith(Cfg, Pre)
Next == NextWith(Steps)
Spec == Init /\ [][Next]_vars
Depth == 3
DepthT == 4
Constraint == Len(hist) <= Len(Pre) + Depth
ASSUME PrintT(<<"CFG", ToJson(CfgJson(Cfg))>>)
=============================================================================
