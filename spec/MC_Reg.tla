------------------------------- MODULE MC_Reg -------------------------------
(* C02, C03 (also C18 at design level): three connections contending for two nicknames under a *)
(* server password; every order of PASS/NICK/USER/CAP, refusals half-way, closes at any point  *)
EXTENDS IrcModel
A == "127.0.0.1"
B == "127.0.0.2"
O == "127.0.0.3"
Cfg == [BaseCfg EXCEPT !.password = <<"srvpass">>]
Pre == << St(O, "!open", <<>>), St(O, "PASS", <<<<"srvpass">>>>), St(O, "NICK", <<<<"obs">>>>), St(O, "USER", <<<<"u3">>, <<"Observer">>>>) >>
PerConn(c, u) ==
    { St(c, "!open", <<>>), St(c, "PASS", <<<<"srvpass">>>>), St(c, "PASS", <<<<"wrong">>>>),
      St(c, "NICK", <<<<"ann">>>>), St(c, "NICK", <<<<"ben">>>>), St(c, "NICK", <<<<"obs">>>>),
      St(c, "USER", <<<<u>>, <<"Real">>>>), St(c, "CAP", <<<<"LS">>, <<"302">>>>), St(c, "CAP", <<<<"END">>>>),
      St(c, "PRIVMSG", <<<<"obs">>, <<"hello">>>>), St(c, "QUIT", <<>>), St(c, "!close", <<>>) }
All == PerConn(A, "u1") \cup PerConn(B, "u2")
Enabled(st) == IF st.cmd.verb = "!open" THEN st.c \notin DOMAIN S.conns ELSE st.c \in DOMAIN S.conns
Steps == {st \in All : Enabled(st)}
Init == InitWith(Cfg, Pre)
Next == NextWith(Steps)
Spec == Init /\ [][Next]_vars
Depth == 9
DepthT == 11
Constraint == Len(hist) <= Len(Pre) + Depth
ASSUME PrintT(<<"CFG", ToJson(CfgJson(Cfg))>>)
=============================================================================
