------------------------------- MODULE MC_Chan -------------------------------
(* C04 (also C16, C06): membership under joins (single and lists), parts, kicks, nick changes, *)
(* quits and abrupt disconnects over two channels, with the query views of C04 on every state    *)
EXTENDS IrcModel
A == "127.0.0.1"
B == "127.0.0.2"
C == "127.0.0.3"
Cfg == [BaseCfg EXCEPT !.channels = << [ChanCfg("#pre") EXCEPT !.o = {"bob"}, !.v = {"carol"}, !.topic = <<"pre topic">>] >>]
Pre == Reg(A, "alice", "u1") \o Reg(B, "bob", "u2") \o Reg(C, "carol", "u3")
All ==
    UNION { { St(c, "JOIN", <<<<"#one">>>>), St(c, "JOIN", <<<<"#pre">>>>), St(c, "JOIN", <<<<"#one", "#pre">>>>),
              St(c, "PART", <<<<"#one">>>>), St(c, "PART", <<<<"#pre", "#one">>, <<"bye">>>>),
              St(c, "QUIT", <<>>), St(c, "!rst", <<>>) } : c \in {A, B, C} }
    \cup { St(A, "KICK", <<<<"#one">>, <<"bob", "carol">>>>), St(A, "KICK", <<<<"#one">>, <<"bob", "carol", "bob">>>>), St(B, "KICK", <<<<"#pre">>, <<"carol">>, <<"out">>>>),
           St(A, "NICK", <<<<"alicia">>>>), St(B, "NICK", <<<<"alice">>>>), St(C, "MODE", <<<<"carol">>, <<"+i">>>>),
           St(A, "MODE", <<<<"#one">>, <<"+s">>>>), St(B, "CAP", <<<<"REQ">>, <<"multi-prefix">>>>) }
Enabled(st) == st.c \in DOMAIN S.conns
Steps == {st \in All : Enabled(st)}
Init == InitWith(Cfg, Pre)
Next == NextWith(Steps)
Spec == Init /\ [][Next]_vars
Depth == 5
DepthT == 6
Constraint == Len(hist) <= Len(Pre) + Depth
ASSUME PrintT(<<"CFG", ToJson(CfgJson(Cfg))>>)
=============================================================================
