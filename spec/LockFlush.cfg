SPECIFICATION Spec
CONSTANTS
  Conns = {"a", "b", "c"}
  Cap = 2
  MaxBuf = 3
  FlushUnderLock = FALSE
INVARIANT TypeOK
INVARIANT NoSocketWaitUnderLock
INVARIANT NeverWedged
PROPERTY Served
PROPERTY OwnOutputFlows
CHECK_DEADLOCK FALSE
