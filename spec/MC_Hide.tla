------------------------------- MODULE MC_Hide -------------------------------
(* C12: every LIST / NAMES / WHO / WHOIS query form from members and outsiders, in worlds with a *)
(* secret channel and an invisible user; TLC compares each answer with the answer in the world    *)
(* where the hidden part does not exist (C12_Step)                                                *)
EXTENDS IrcModel
A == "127.0.0.1"
B == "127.0.0.2"
C == "127.0.0.3"
Cfg == BaseCfg
Pre == Reg(A, "alice", "u1") \o Reg(B, "bob", "u2") \o Reg(C, "carol", "u3")
       \o << St(A, "JOIN", <<<<"#sec">>>>), St(B, "JOIN", <<<<"#pub">>>>) >>
Setup == { St(A, "MODE", <<<<"#sec">>, <<"+s">>>>), St(A, "MODE", <<<<"#sec">>, <<"-s">>>>), St(A, "TOPIC", <<<<"#sec">>, <<"secret plans">>>>),
           St(A, "MODE", <<<<"alice">>, <<"+i">>>>), St(B, "MODE", <<<<"bob">>, <<"+i">>>>), St(B, "JOIN", <<<<"#sec">>>>),
           St(A, "JOIN", <<<<"#pub">>>>), St(C, "JOIN", <<<<"#pub">>>>), St(B, "PART", <<<<"#pub">>>>), St(A, "MODE", <<<<"#sec">>, <<"+n">>>>) }
Queries ==
    UNION { { St(c, "LIST", <<>>), St(c, "LIST", <<<<"#sec">>>>), St(c, "LIST", <<<<"#pub", "#sec", "#none">>>>),
              St(c, "NAMES", <<>>), St(c, "NAMES", <<<<"#sec">>>>), St(c, "NAMES", <<<<"#none">>>>), St(c, "NAMES", <<<<"#pub", "#sec">>>>),
              St(c, "WHO", <<<<"#sec">>>>), St(c, "WHO", <<<<"#pub">>>>), St(c, "WHO", <<<<"*">>>>), St(c, "WHO", <<<<"a*">>>>),
              St(c, "WHO", <<<<"alice">>>>), St(c, "WHO", <<<<"*!*@127.0.0.?">>>>),
              St(c, "WHOIS", <<<<"alice">>>>), St(c, "WHOIS", <<<<"alice", "bob">>>>), St(c, "WHOIS", <<<<"*">>>>), St(c, "WHOIS", <<<<"b?b">>>>),
              St(c, "PRIVMSG", <<<<"#sec">>, <<"psst">>>>), St(c, "NOTICE", <<<<"#sec">>, <<"psst">>>>) } : c \in {B, C} }
Steps == Setup \cup Queries
Init == InitWith(Cfg, Pre)
Next == NextWith(Steps)
Spec == Init /\ [][Next]_vars
Depth == 5
DepthT == 6
Constraint == Len(hist) <= Len(Pre) + Depth
ASSUME PrintT(<<"CFG", ToJson(CfgJson(Cfg))>>)
=============================================================================
