------------------------------- MODULE MC_Mode -------------------------------
(* C08: every mode letter with + and -, from actors of every rank (and an outsider), on targets *)
(* of every rank, in composite mode strings, followed by the commands that must enforce them     *)
EXTENDS IrcModel
A == "127.0.0.1"
B == "127.0.0.2"
C == "127.0.0.3"
D == "127.0.0.4"
Cfg == BaseCfg
Pre == Reg(A, "alice", "u1") \o Reg(B, "bob", "u2") \o Reg(C, "carol", "u3") \o Reg(D, "dave", "u4")
       \o << St(A, "JOIN", <<<<"#one">>>>), St(B, "JOIN", <<<<"#one">>>>), St(C, "JOIN", <<<<"#one">>>>) >>
M(c, g1) == St(c, "MODE", <<<<"#one">>, g1>>)
M2(c, g1, g2) == St(c, "MODE", <<<<"#one">>, g1, g2>>)
Grants == { M(A, <<"+" \o r, "bob">>) : r \in {"q", "a", "o", "h", "v"} } \cup { M(A, <<"-o", "alice">>), M(A, <<"-q", "alice">>) }
ByBob ==
    { M(B, <<s \o l, "carol">>) : s \in {"+", "-"}, l \in {"q", "a", "o", "h", "v"} }
    \cup { M(B, <<s \o l>>) : s \in {"+", "-"}, l \in {"i", "m", "t", "n", "s"} }
    \cup { M(B, <<"+k", "key">>), M(B, <<"-k">>), M(B, <<"+l", "1">>), M(B, <<"-l">>),
           M(B, <<"+b", "dave">>), M(B, <<"-b", "dave!*@*">>), M(B, <<"+e", "dave@127.0.0.4">>), M(B, <<"+I", "dave!~u4">>),
           M(B, <<"b">>), M(B, <<"+eI">>), M(B, <<>>),
           M(B, <<"+o-v+h", "carol", "carol", "alice">>), M(B, <<"+lk-t+b", "2", "kk", "x!y@z">>),
           M2(B, <<"+im">>, <<"-o+v", "alice", "bob">>), M(B, <<"-o", "bob">>), M(B, <<"+v", "nobody">>) }
ByOthers == { M(D, <<"+i">>), M(D, <<>>), M(C, <<"+t">>), M(C, <<"+v", "carol">>), M(C, <<"b">>), M(C, <<"+b", "x">>),
              St(B, "MODE", <<<<"#none">>, <<"+i">>>>) }
Probes == { St(D, "JOIN", <<<<"#one">>>>), St(D, "JOIN", <<<<"#one">>, <<"key">>>>), St(D, "PRIVMSG", <<<<"#one">>, <<"hi">>>>),
            St(C, "PRIVMSG", <<<<"#one">>, <<"hi">>>>), St(C, "TOPIC", <<<<"#one">>, <<"new">>>>), St(B, "KICK", <<<<"#one">>, <<"carol">>>>),
            St(C, "INVITE", <<<<"dave">>, <<"#one">>>>), St(C, "NAMES", <<<<"#one">>>>), St(D, "LIST", <<>>), St(C, "WHO", <<<<"#one">>>>) }
Steps == Grants \cup ByBob \cup ByOthers \cup Probes
Init == InitWith(Cfg, Pre)
Next == NextWith(Steps)
Spec == Init /\ [][Next]_vars
Depth == 3
DepthT == 4
Constraint == Len(hist) <= Len(Pre) + Depth
ASSUME PrintT(<<"CFG", ToJson(CfgJson(Cfg))>>)
=============================================================================
