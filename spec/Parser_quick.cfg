CONSTANTS
LineLen = 5
