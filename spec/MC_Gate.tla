------------------------------- MODULE MC_Gate -------------------------------
(* C03: the registration gate under a server password and configured users (with a password, *)
(* without one, with a mask that matches / does not match); every gated verb before registration *)
EXTENDS IrcModel
A == "127.0.0.1"
B == "127.0.0.2"
O == "127.0.0.3"
Cfg == [BaseCfg EXCEPT !.password = <<"srvpass">>,
          !.users = << [name |-> "reg1", nick |-> "reg1", pass |-> <<"userpass">>, mask |-> <<>>],
                       [name |-> "reg2", nick |-> "reg2", pass |-> <<>>, mask |-> <<"*!*@127.0.0.1">>],
                       [name |-> "reg3", nick |-> "reg3", pass |-> <<"userpass">>, mask |-> <<"ann!*@*">>],
                       [name |-> "Reg4", nick |-> "Reg4", pass |-> <<"userpass">>, mask |-> <<>>] >>]   \* names are compared as written
Pre == << St(O, "!open", <<>>), St(O, "PASS", <<<<"srvpass">>>>), St(O, "NICK", <<<<"obs">>>>), St(O, "USER", <<<<"u3">>, <<"Observer">>>>),
          St(O, "JOIN", <<<<"#one">>>>), St(A, "!open", <<>>), St(B, "!open", <<>>) >>
Gated == { St(A, "JOIN", <<<<"#one">>>>), St(A, "PRIVMSG", <<<<"obs">>, <<"psst">>>>), St(A, "NOTICE", <<<<"#one">>, <<"psst">>>>),
           St(A, "NAMES", <<<<"#one">>>>), St(A, "WHO", <<<<"*">>>>), St(A, "WHOIS", <<<<"obs">>>>), St(A, "LIST", <<>>),
           St(A, "LUSERS", <<>>), St(A, "MODE", <<<<"obs">>, <<"+i">>>>), St(A, "OPER", <<<<"god">>, <<"x">>>>),
           St(A, "KILL", <<<<"obs">>, <<"die">>>>), St(A, "DIE", <<>>), St(A, "TOPIC", <<<<"#one">>, <<"t">>>>),
           St(A, "AWAY", <<<<"x">>>>), St(A, "ISON", <<<<"obs">>>>), St(A, "MOTD", <<>>), St(A, "PING", <<<<"t">>>>),
           St(A, "WALLOPS", <<<<"x">>>>), St(A, "KICK", <<<<"#one">>, <<"obs">>>>), St(A, "INVITE", <<<<"obs">>, <<"#one">>>>),
           St(A, "PART", <<<<"#one">>>>), St(A, "USERHOST", <<<<"obs">>>>), St(A, "WHOWAS", <<<<"obs">>>>), St(A, "STATS", <<<<"u">>>>),
           St(A, "VERSION", <<>>), St(A, "ADMIN", <<>>), St(A, "TIME", <<>>), St(A, "INFO", <<>>), St(A, "HELP", <<>>), St(A, "LINKS", <<>>),
           St(A, "SQUIT", <<<<"irc.irc">>, <<"x">>>>), St(A, "REHASH", <<>>), St(A, "RESTART", <<>>), St(A, "CONNECT", <<<<"a.b">>>>),
           St(A, "PONG", <<<<"t">>>>), St(A, "AUTHENTICATE", <<>>), St(A, "FOO", <<>>) }
RegCmds(c) ==
    { St(c, "PASS", <<<<"srvpass">>>>), St(c, "PASS", <<<<"userpass">>>>), St(c, "PASS", <<<<"wrong">>>>), St(c, "PASS", <<<<"srvpass ">>>>), St(c, "PASS", <<<<" userpass">>>>),   \* exactly that password: padding is a different one
     
      St(c, "NICK", <<<<"ann">>>>), St(c, "NICK", <<<<"obs">>>>),
      St(c, "USER", <<<<"u1">>, <<"R">>>>), St(c, "USER", <<<<"reg1">>, <<"R">>>>), St(c, "USER", <<<<"reg2">>, <<"R">>>>),
      St(c, "USER", <<<<"reg3">>, <<"R">>>>), St(c, "USER", <<<<"Reg4">>, <<"R">>>>), St(c, "USER", <<<<"reg4">>, <<"R">>>>),
      St(c, "CAP", <<<<"LS">>>>), St(c, "CAP", <<<<"REQ">>, <<"multi-prefix">>>>), St(c, "CAP", <<<<"REQ">>, <<"sasl">>>>), St(c, "CAP", <<<<"END">>>>), St(c, "QUIT", <<>>) }
Enabled(st) == st.c \in DOMAIN S.conns
Steps == {st \in Gated \cup RegCmds(A) \cup {St(B, "NICK", <<<<"ann">>>>), St(B, "USER", <<<<"reg2">>, <<"R">>>>), St(B, "PASS", <<<<"srvpass">>>>)} : Enabled(st)}
Init == InitWith(Cfg, Pre)
Next == NextWith(Steps)
Spec == Init /\ [][Next]_vars
Depth == 6
DepthT == 7
Constraint == Len(hist) <= Len(Pre) + Depth
ASSUME PrintT(<<"CFG", ToJson(CfgJson(Cfg))>>)
=============================================================================
