------------------------------- MODULE ConfigValid -------------------------------
(***************************************************************************)
(* C20: which configurations the server may start from.  Each documented   *)
(* field of the file takes one of its variants (absent / valid / the       *)
(* invalid forms the validation must refuse), the command line may         *)
(* override the name and give TLS certificate and key.  Valid(c) is the    *)
(* statement's condition; Effective(c) what must govern behaviour after    *)
(* the command-line overrides.  TLC enumerates the whole product with the  *)
(* expected verdict; the procs driver starts the real binary on each       *)
(* selected case.                                                          *)
(***************************************************************************)
EXTENDS Naturals, Sequences, FiniteSets, TLC, Json

Variants ==
  [ name |-> {"dot", "nodot"},
    password |-> {"absent", "valid", "notbase64", "wronglen"},
    user |-> {"none", "valid", "nopass", "badname", "badhash", "shorthash"},
    operator |-> {"none", "valid", "badname", "badhash"},
    channel |-> {"none", "valid", "badname"},
    tlsfile |-> {"none", "both"},
    clicert |-> {"absent", "present"},
    clikey |-> {"absent", "present"},
    cliname |-> {"none", "dot", "nodot"} ]

Cases == [ name : Variants.name, password : Variants.password, user : Variants.user, operator : Variants.operator,
           channel : Variants.channel, tlsfile : Variants.tlsfile, clicert : Variants.clicert, clikey : Variants.clikey,
           cliname : Variants.cliname ]

EffName(c) == IF c.cliname = "none" THEN c.name ELSE c.cliname
Valid(c) ==
    /\ EffName(c) = "dot"                                     \* server name containing a dot
    /\ c.password \in {"absent", "valid"}                     \* well-formed password hashes
    /\ c.user \in {"none", "valid", "nopass"}                 \* valid user names and hashes
    /\ c.operator \in {"none", "valid"}                       \* valid operator names and hashes
    /\ c.channel \in {"none", "valid"}                        \* valid channel names
    /\ c.clicert = c.clikey                                   \* TLS certificate and key given together
EffTls(c) == (c.clicert = "present" /\ c.clikey = "present") \/ c.tlsfile = "both"

Baseline == [ name |-> "dot", password |-> "absent", user |-> "none", operator |-> "none", channel |-> "none",
              tlsfile |-> "none", clicert |-> "absent", clikey |-> "absent", cliname |-> "none" ]

(* sanity of the table itself *)
ASSUME Valid(Baseline)
ASSUME \A c \in Cases : (c.name = "nodot" /\ c.cliname = "none") => ~Valid(c)
ASSUME \A c \in Cases : Valid(c) => Valid([c EXCEPT !.tlsfile = "none"])

ASSUME \A c \in Cases : PrintT(<<"CASE", ToJson([case |-> c, valid |-> Valid(c), tls |-> EffTls(c), name |-> EffName(c)])>>)
=============================================================================
