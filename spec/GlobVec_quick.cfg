CONSTANTS
MaskLen = 4
TextLen = 4
NormLen = 6
