------------------------------- MODULE MC_Speak -------------------------------
(* C10 over histories: the speaking restrictions of a channel (+b/+e lists, +m, +n, voice) are set   *)
(* and lifted by the operator and - refused - attempted by plain members and outsiders with every   *)
(* list letter and sign; after every such history the banned, the unvoiced and the outsider try to  *)
(* speak.  A refused change must leave every restriction as it was.                                  *)
EXTENDS IrcModel
A == "127.0.0.1"
B == "127.0.0.2"
C == "127.0.0.3"
D == "127.0.0.4"
E == "127.0.0.5"
Cfg == BaseCfg
Pre == Reg(A, "alice", "u1") \o Reg(B, "bob", "u2") \o Reg(C, "carol", "u3") \o Reg(D, "dave", "u4") \o Reg(E, "zoë", "u5")
       \o << St(A, "JOIN", <<<<"#one">>>>), St(B, "JOIN", <<<<"#one">>>>), St(C, "JOIN", <<<<"#one">>>>), St(E, "JOIN", <<<<"#one">>>>),
             St(A, "MODE", <<<<"#one">>, <<"+b", "bob!*@*">>>>) >>
M(c, g1) == St(c, "MODE", <<<<"#one">>, g1>>)
Lawful == { M(A, <<"-b", "bob!*@*">>), M(A, <<"+e", "*!*@127.0.0.2">>), M(A, <<"-e", "*!*@127.0.0.2">>), M(A, <<"+m">>), M(A, <<"-m">>),
            M(A, <<"+v", "carol">>), M(A, <<"-v", "carol">>), M(A, <<"-n">>), M(A, <<"+n">>), M(A, <<"+b", "*!*u4@*">>),
            M(A, <<"+v", "bob">>), M(A, <<"-v", "bob">>), M(A, <<"+s">>), M(A, <<"-s">>),
            M(A, <<"+b", "zo?!*@*">>), M(A, <<"+e", "z??">>), M(A, <<"+b", "zo??!*@*">>) }       \* one character under '?', however many bytes it has
Refused == { M(c, g) : c \in {B, C, D}, g \in { <<"+b", "nobody">>, <<"-b", "bob!*@*">>, <<"+e", "bob">>, <<"-e", "*!*@127.0.0.2">>,
                                                 <<"-m">>, <<"+m">>, <<"+v", "carol">>, <<"-b+e", "bob!*@*", "bob!*@*">> } }
Speak == { St(c, v, <<<<"#one">>, <<"hello">>>>) : c \in {B, C, D, E}, v \in {"PRIVMSG", "NOTICE"} }
         \cup { M(B, <<"+b">>), M(C, <<"+e">>), M(C, <<>>) }
Enabled(st) == st.c \in DOMAIN S.conns
Steps == {st \in Lawful \cup Refused \cup Speak : Enabled(st)}
Init == InitWith(Cfg, Pre)
Next == NextWith(Steps)
Spec == Init /\ [][Next]_vars
Depth == 4
DepthT == 6
Constraint == Len(hist) <= Len(Pre) + Depth
ASSUME PrintT(<<"CFG", ToJson(CfgJson(Cfg))>>)
=============================================================================
