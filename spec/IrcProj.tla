------------------------------- MODULE IrcProj -------------------------------
(***************************************************************************)
(* Projections: which divergence between what the specification computes  *)
(* and what the implementation did belongs to which listed property, and   *)
(* the state invariants evaluated on every recorded snapshot.              *)
(*                                                                         *)
(* A divergence is a tag [t, a, b, d]:                                     *)
(*   st  / top-level field / sub-field            state differs            *)
(*   out / kind / code-or-verb / dir              output bag differs;      *)
(*        dir = "+s" unexpected line to the issuer, "+o" unexpected line   *)
(*        to somebody else, "-s"/"-o" expected line missing                *)
(*   inv / name                                   invariant broken in post *)
(*   run / dead|panic|issue|skipped               a task died / watchdog   *)
(***************************************************************************)
EXTENDS IrcSpec

Tag(t, a, b, d) == [t |-> t, a |-> a, b |-> b, d |-> d]
TagStr(g) == g.t \o ":" \o g.a \o (IF g.b # "" THEN ":" \o g.b ELSE "") \o (IF g.d # "" THEN ":" \o g.d ELSE "")

AllProps == {"C01", "C02", "C03", "C04", "C05", "C06", "C07", "C08", "C09", "C10", "C11", "C12",
             "C13", "C14", "C15", "C16", "C17", "C18", "C19", "C20"}

(* ---- state comparison ---- *)
UserFields == {"host", "uname", "real", "src", "modes", "away", "chans", "invited", "killable"}
ChanFields == {"members", "rs", "flags", "key", "limit", "ban", "exc", "invex", "banwho", "topic",
               "topicby", "preconf", "def"}
ConnFields == {"nick", "uname", "real", "pass", "src", "authed", "cfgreg", "capneg", "mp", "hasq", "quit", "stalled"}
Scalars == {"wallops", "invCnt", "operCnt", "maxUsers", "whowas", "connCnt", "up"}

MapTags(top, fields, E, O) ==
    (IF DOMAIN E # DOMAIN O THEN {Tag("st", top, "domain", "")} ELSE {})
    \cup {Tag("st", top, f, "") : f \in {g \in fields :
              \E n \in (DOMAIN E) \cap (DOMAIN O) : E[n][g] # O[n][g]}}

StateTags(E, O) ==
    MapTags("users", UserFields, E.users, O.users)
    \cup MapTags("chans", ChanFields, E.chans, O.chans)
    \cup MapTags("conns", ConnFields, E.conns, O.conns)
    \cup {Tag("st", f, "", "") : f \in {g \in Scalars : E[g] # O[g]}}

(* C02: the record of a user OTHER than the issuer of the command differs from what the specification computes *)
(* (identity, modes, away state) - somebody was modified by a connection that is not his own                    *)
ForeignTags(c, pre, E, O) ==
    LET me == IF c \in DOMAIN pre.conns /\ pre.conns[c].authed /\ pre.conns[c].nick # <<>> THEN {pre.conns[c].nick[1]} ELSE {}
        mine == me \cup (IF c \in DOMAIN O.conns /\ O.conns[c].authed /\ O.conns[c].nick # <<>> THEN {O.conns[c].nick[1]} ELSE {})
    IN IF \E n \in ((DOMAIN E.users) \cap (DOMAIN O.users)) \ mine :
              \E f \in {"host", "uname", "real", "src", "modes", "away"} : E.users[n][f] # O.users[n][f]
       THEN {Tag("st", "users", "foreign", "")} ELSE {}

(* ---- output comparison (bags) ---- *)
Count(q, m) == Cardinality({k \in DOMAIN q : q[k] = m})
MissingMsgs(exp, obs) == {m \in ToSet(exp) : Count(exp, m) > Count(obs, m)}
ExtraMsgs(exp, obs) == {m \in ToSet(obs) : Count(obs, m) > Count(exp, m)}
OutTagsFor(c, exp, obs) ==
    {Tag("out", m.k, m.c, IF m.to = c THEN "-s" ELSE "-o") : m \in MissingMsgs(exp, obs)}
    \cup {Tag("out", m.k, m.c, IF m.to = c THEN "+s" ELSE "+o") : m \in ExtraMsgs(exp, obs)}

(* ---- invariants on a recorded state ---- *)
InvSym(S) ==       \* C04: membership is one relation kept in three places
    /\ \A n \in DOMAIN S.users : \A x \in S.users[n].chans :
          x \in DOMAIN S.chans /\ n \in DOMAIN S.chans[x].members
    /\ \A x \in DOMAIN S.chans :
          /\ \A n \in DOMAIN S.chans[x].members : n \in DOMAIN S.users /\ x \in S.users[n].chans
          /\ \A r \in RankSet : S.chans[x].rs[r] = {n \in DOMAIN S.chans[x].members : r \in S.chans[x].members[n]}
InvOwner(S) ==     \* C02: one owner per nickname; a registered connection owns its user
    /\ \A n \in DOMAIN S.users :
          /\ S.users[n].host \in DOMAIN S.conns
          /\ S.conns[S.users[n].host].authed
          /\ S.conns[S.users[n].host].nick = <<n>>
    /\ \A c \in DOMAIN S.conns : S.conns[c].authed =>
          /\ S.conns[c].nick # <<>> /\ S.conns[c].nick[1] \in DOMAIN S.users
          /\ S.users[S.conns[c].nick[1]].host = c
InvCounters(S) ==  \* C19
    /\ S.invCnt = Cardinality({n \in DOMAIN S.users : "i" \in S.users[n].modes})
    /\ S.operCnt = Cardinality({n \in DOMAIN S.users : IsOper(S.users[n])})
    /\ S.maxUsers >= Cardinality(DOMAIN S.users)
    /\ S.connCnt = Cardinality(DOMAIN S.conns)
    /\ (S.cfg.max_connections # <<>> => S.connCnt <= S.cfg.max_connections[1])
InvWallops(S) == S.wallops = {n \in DOMAIN S.users : "w" \in S.users[n].modes}
InvEmptyChan(S) == \A x \in DOMAIN S.chans : S.chans[x].members # <<>> \/ S.chans[x].preconf
InvInvited(S) == \A n \in DOMAIN S.users : \A x \in S.users[n].invited : TRUE

(* every user record is held by a live connection: whatever the bookkeeping by nickname says, a record whose *)
(* connection is gone is a trace left behind (C06)                                                          *)
InvTrace(S) == \A n \in DOMAIN S.users : S.users[n].host \in DOMAIN S.conns
InvTags(S) ==
    (IF InvTrace(S) THEN {} ELSE {Tag("inv", "trace", "", "")}) \cup
    (IF InvSym(S) THEN {} ELSE {Tag("inv", "sym", "", "")})
    \cup (IF InvOwner(S) THEN {} ELSE {Tag("inv", "owner", "", "")})
    \cup (IF InvCounters(S) THEN {} ELSE {Tag("inv", "counters", "", "")})
    \cup (IF InvWallops(S) THEN {} ELSE {Tag("inv", "wallops", "", "")})
    \cup (IF InvEmptyChan(S) THEN {} ELSE {Tag("inv", "emptychan", "", "")})
AllInv(S) == InvSym(S) /\ InvOwner(S) /\ InvCounters(S) /\ InvWallops(S) /\ InvEmptyChan(S)

(* ---- the context of a step: what the command was about ---- *)
Ctx(S, c, cmd) ==
    LET v == cmd.verb
        p == cmd.p
        live == c \in DOMAIN S.conns
        authed == live /\ S.conns[c].authed
        perr == v \notin Faults /\ v # "RAW" /\ Validate(cmd) # <<>>
        ok == authed /\ ~perr
        me == IF authed THEN S.conns[c].nick[1] ELSE ""
        chTargets == IF ok /\ v \in {"PRIVMSG", "NOTICE"}
                     THEN {Target(t).chan : t \in {u \in ToSet(p[1]) : Target(u).ischan}} \cap DOMAIN S.chans
                     ELSE {}
        modeChan == ok /\ v = "MODE" /\ ValidChannel(p[1][1])
        joinChans == IF ok /\ v = "JOIN" THEN ToSet(p[1]) ELSE {}
        hidden == ok /\ ( (\E x \in DOMAIN S.chans : "s" \in S.chans[x].flags /\ me \notin Members(S.chans[x]))
                          \/ (\E n \in DOMAIN S.users : "i" \in S.users[n].modes /\ n # me /\ ~Shares(S, me, n)) )
        maskyChans == {x \in (chTargets \cup joinChans) \cap DOMAIN S.chans :
                          S.chans[x].ban # {} \/ S.chans[x].exc # {} \/ S.chans[x].invex # {}}
    IN [ verb |-> v, authed |-> authed, perr |-> perr,
         restricted |-> \E x \in chTargets : ~MaySpeak(S, c, x),
         secretTarget |-> \E x \in chTargets : "s" \in S.chans[x].flags /\ me \notin Members(S.chans[x]),
         modeChan |-> modeChan,
         creates |-> \E x \in joinChans : x \notin DOMAIN S.chans,
         preconfJoin |-> \E x \in joinChans : x \in DOMAIN S.chans /\ S.chans[x].preconf,
         hidden |-> hidden,
         pwcfg |-> S.cfg.password # <<>> \/ (\E k \in DOMAIN S.cfg.users : S.cfg.users[k].pass # <<>>),
         quota |-> S.cfg.max_joins # <<>>,
         dflt |-> S.cfg.default_modes # {},
         cfgusers |-> S.cfg.users # <<>>,
         masky |-> maskyChans # {}
                   \/ (ok /\ v = "OPER" /\ \E k \in DOMAIN S.cfg.operators : S.cfg.operators[k].mask # <<>>)
                   \/ (~authed /\ \E k \in DOMAIN S.cfg.users : S.cfg.users[k].mask # <<>>)
                   \/ (ok /\ v = "WHO" /\ HasWild(p[1][1]))
                   \/ (ok /\ v = "WHOIS" /\ \E k \in DOMAIN p[Len(p)] : HasWild(p[Len(p)][k]))
                   \/ (modeChan /\ \E g \in 2..Len(p) : \E k \in 1..Len(p[g][1]) : Chr(p[g][1], k) \in {"b", "e", "I"}) ]

Endings == {"QUIT", "!close", "!rst", "!half"}
RegVerbs == {"CAP", "PASS", "NICK", "USER", "AUTHENTICATE", "QUIT"}
WelcomeCodes == {"001", "002", "003", "004", "005", "375", "372", "376", "221",
                 "251", "252", "253", "254", "255", "265", "266"}

(* the numerics through which LIST / NAMES / WHO / WHOIS show channels and users *)
ViewCodes == {"321", "322", "323", "353", "366", "352", "315", "307", "311", "312", "313", "317", "318", "319", "378", "379", "671", "301"}
IsOut(g) == g.t = "out"
IsSt(g) == g.t = "st"
Extra(g) == g.t = "out" /\ g.d \in {"+s", "+o"}
ToOther(g) == g.t = "out" /\ g.d \in {"+o", "-o"}
ToSelf(g) == g.t = "out" /\ g.d \in {"+s", "-s"}
Membership(g) == (IsSt(g) /\ g.a = "chans" /\ g.b \in {"members", "rs"}) \/ (IsSt(g) /\ g.a = "users" /\ g.b = "chans")

(* the projection table: does property P own divergence g of a step with context x *)
Owns(P, x, g) ==
    LET v == x.verb IN
    CASE P = "C01" -> ~x.perr /\ x.authed /\ v \in {"PRIVMSG", "NOTICE"} /\
                      ((IsOut(g) /\ g.a = "r" /\ g.b \in {"PRIVMSG", "NOTICE"} /\ ~x.restricted) \/ IsSt(g))
      [] P = "C02" -> \/ (g.t = "inv" /\ g.a = "owner")
                      \/ (IsSt(g) /\ g.a = "users" /\ g.b \in {"domain", "host", "src", "uname"}
                                  /\ (v \in (RegVerbs \cup Endings \cup {"NICK", "KILL"})) /\ ~(x.authed /\ v = "NICK" /\ g.b = "src"))
                      \/ (IsSt(g) /\ g.a = "conns" /\ g.b \in {"authed", "nick", "hasq"})
                      \/ (IsSt(g) /\ g.a = "users" /\ g.b = "foreign" /\ v \notin {"KILL", "DIE", "SQUIT"})
                      \/ (~x.authed /\ IsOut(g) /\ g.a = "r")
                      \/ (~x.authed /\ IsOut(g) /\ g.b \in {"433", "001"})
      [] P = "C03" -> ~x.authed /\ v \notin Faults /\
                      (IsSt(g) \/ ToOther(g) \/ (IsOut(g) /\ g.b \in {"451", "464", "001", "EOF", "ERROR", "462"}))
      [] P = "C04" -> \/ (g.t = "inv" /\ g.a = "sym")
                      \/ (x.authed /\ v \in ({"JOIN", "PART", "KICK", "NICK", "KILL"} \cup Endings) /\
                            (Membership(g) \/ (IsOut(g) /\ g.a = "r" /\ g.b \in {"JOIN", "PART", "KICK", "NICK"})
                             \/ (IsOut(g) /\ g.b \in {"353", "366"})))
                      \/ (x.authed /\ ~x.perr /\ ~x.hidden /\ v \in {"NAMES", "WHO", "WHOIS"} /\ IsOut(g) /\
                            g.b \in {"353", "366", "352", "315", "319"} /\ g.d \in {"-s", "-o"})
      [] P = "C05" -> g.t = "run" /\ g.a \in {"dead", "panic", "issue", "closed", "otherclosed", "unregistered"}
      [] P = "C06" -> \/ (g.t = "inv" /\ g.a = "trace")
                      \/ (((x.authed /\ v \in Endings) \/ (x.authed /\ ~x.perr /\ v \in {"KILL", "DIE", "SQUIT"})) /\
                             (IsSt(g) \/ (IsOut(g) /\ g.b \in {"EOF", "ERROR"})))
      [] P = "C07" -> x.authed /\ ~x.perr /\ v = "JOIN" /\
                      ((IsOut(g) /\ g.b \in {"475", "474", "473", "471", "405", "JOIN"})
                       \/ Membership(g) \/ (IsSt(g) /\ g.a = "users" /\ g.b = "invited"))
      [] P = "C08" -> \/ (x.modeChan /\ ((IsSt(g) /\ g.a = "chans") \/ IsOut(g)))
                      \/ (IsSt(g) /\ g.a = "chans" /\ g.b \in {"rs", "flags", "key", "limit", "ban", "exc", "invex"})   \* changed otherwise than through MODE
      [] P = "C09" -> x.authed /\ ~x.perr /\
                      ((v \in {"KICK", "TOPIC", "INVITE"} /\ (IsSt(g) \/ IsOut(g)))
                       \/ (v = "LIST" /\ IsOut(g) /\ g.b = "322" /\ ~x.hidden)
                       \/ (v = "JOIN" /\ IsOut(g) /\ g.b \in {"332", "473"})
                       \/ (v = "JOIN" /\ IsSt(g) /\ g.a = "users" /\ g.b = "invited"))      \* an invitation is one admission: used by the JOIN it admits, by nothing else
      [] P = "C10" -> x.authed /\ ~x.perr /\
                      ((v \in {"PRIVMSG", "NOTICE"} /\ IsOut(g) /\
                           (g.b \in {"404", "403", "401", "301"} \/ (g.a = "r" /\ x.restricted) \/ (v = "NOTICE" /\ ToSelf(g) /\ g.a # "r")))
                       \/ (v = "AWAY" /\ (IsSt(g) \/ IsOut(g)))
                       \/ (IsSt(g) /\ g.a = "chans" /\ g.b \in {"ban", "exc", "flags"}))   \* the restrictions themselves changed otherwise than specified
      [] P = "C11" -> \/ (g.t = "inv" /\ g.a = "wallops")
                      \/ (x.authed /\ ~x.perr /\ v \in {"OPER", "KILL", "DIE", "SQUIT", "WALLOPS", "STATS"} /\ (IsSt(g) \/ IsOut(g)))
                      \/ (x.authed /\ ~x.perr /\ v = "MODE" /\ ~x.modeChan /\
                            ((IsSt(g) /\ g.a = "users" /\ g.b = "modes") \/ (IsSt(g) /\ g.a \in {"wallops", "operCnt"}) \/ IsOut(g)))
      [] P = "C12" -> \/ (g.t = "inv" /\ g.a = "sym")
                      \/ (IsSt(g) /\ g.a = "users" /\ g.b = "chans" /\ v \notin {"JOIN"})
                      \/ (x.authed /\ ~x.perr /\
                            ((v \in {"LIST", "NAMES", "WHO", "WHOIS"} /\ x.hidden /\ IsOut(g) /\ g.b \in ViewCodes)
                             \/ (v \in {"PRIVMSG", "NOTICE"} /\ x.secretTarget /\ IsOut(g) /\ g.a = "r")))
      [] P = "C13" -> \/ (x.perr /\ (IsSt(g) \/ IsOut(g)))
                      \/ (IsOut(g) /\ g.b \in {"421", "461", "472", "501", "696", "417", "UNPARSABLE"})
      [] P = "C14" -> \/ (IsSt(g) /\ g.a \in {"users", "conns"} /\ g.b = "src")      \* the text that masks are compared with
                      \/ (x.masky /\ ((IsOut(g) /\ g.b \in {"474", "473", "404", "491", "367", "348", "346", "MODE", "352", "311"})
                                  \/ (IsSt(g) /\ g.a = "chans" /\ g.b \in {"ban", "exc", "invex"})
                                  \/ (g.t = "run" /\ g.a \in {"dead", "panic"})))
      [] P = "C15" -> x.authed /\ ~x.perr /\ v = "NICK" /\ (IsSt(g) \/ IsOut(g))
      [] P = "C16" -> \/ (IsSt(g) /\ g.a = "chans" /\ g.b \in {"domain", "preconf", "def"})
                      \/ (g.t = "inv" /\ g.a = "emptychan")
                      \/ (x.creates /\ IsSt(g) /\ g.a = "chans")
                      \/ (x.preconfJoin /\ Membership(g))
      [] P = "C17" -> x.authed /\ v \in {"PING", "PONG"} /\ (IsSt(g) \/ IsOut(g))
      [] P = "C18" -> g.t = "run" /\ g.a = "issue"      \* "keeps answering every live connection" (the rest of C18 is decided by TraceLin)
      [] P = "C19" -> \/ (IsSt(g) /\ g.a \in {"invCnt", "operCnt", "maxUsers", "connCnt"})
                      \/ (g.t = "inv" /\ g.a \in {"counters", "owner"})      \* presence is true: every listed user is a live registered connection
                      \/ (x.authed /\ ~x.perr /\ v \in {"LUSERS", "ISON", "USERHOST"} /\ IsOut(g))
                      \/ (v = "!open")
      [] P = "C20" -> \/ (x.authed /\ ~x.perr /\ v \in {"MOTD", "VERSION", "ADMIN", "INFO", "TIME", "LINKS", "HELP",
                                                       "CONNECT", "REHASH", "RESTART"} /\ (IsSt(g) \/ IsOut(g)))
                      \/ (~x.authed /\ v \in RegVerbs /\ IsOut(g) /\ g.b \in WelcomeCodes)
                      \/ (~x.authed /\ v \in RegVerbs /\ x.pwcfg /\ ((IsOut(g) /\ g.b \in {"464", "001"}) \/ (IsSt(g) /\ g.a = "conns" /\ g.b = "pass")))
                      \* each documented setting governs behaviour: the joins quota, default user modes, predefined users, operators, channels
                      \/ (x.authed /\ ~x.perr /\ v = "JOIN" /\ x.quota /\ ((IsOut(g) /\ g.b \in {"405", "JOIN"}) \/ Membership(g)))
                      \/ (~x.authed /\ v \in RegVerbs /\ x.dflt /\ IsSt(g) /\ ((g.a = "users" /\ g.b = "modes") \/ g.a \in {"wallops", "invCnt", "operCnt"}))
                      \/ (~x.authed /\ v \in RegVerbs /\ x.cfgusers /\ ((IsSt(g) /\ g.a = "conns" /\ g.b \in {"cfgreg", "authed"})
                                                                   \/ (IsSt(g) /\ g.a = "users" /\ g.b \in {"modes", "domain"})
                                                                   \/ (IsOut(g) /\ g.b \in {"ERROR", "EOF"})))
                      \/ (x.authed /\ ~x.perr /\ v = "OPER" /\ (IsOut(g) \/ (IsSt(g) /\ g.a = "users" /\ g.b = "modes")))
                      \/ (x.preconfJoin /\ (Membership(g) \/ (IsOut(g) /\ g.b \in {"332", "353", "JOIN", "475", "474", "473", "471"})))
      [] OTHER -> FALSE
=============================================================================
