------------------------------- MODULE EchoOrder -------------------------------
(***************************************************************************)
(* Design-level model behind the first sentence of C18 ("replies to one    *)
(* connection's commands arrive in the order the commands were sent").     *)
(*                                                                         *)
(* A connection's task (MainState::process, src/state/mod.rs) waits in a   *)
(* select for the next input line or the next message in the connection's  *)
(* own queue.  Some commands answer directly (the handler writes to the    *)
(* connection's stream), others answer through the queue: PART, NICK,      *)
(* TOPIC, MODE, KICK ... are announced to all members including the issuer *)
(* by pushing the line into every member's queue.  If, after a command     *)
(* whose echo sits in the queue, the select takes the next input line      *)
(* first, the direct reply of the later command overtakes the echo of the  *)
(* earlier one - that is what the code did before the fix ("drain own      *)
(* queue after every handled event").  DrainAfterEvent = TRUE is the code  *)
(* now; FALSE the code before (EchoOrder_prefix.cfg expects the violation).*)
(* Bound to the code by the concurrent rounds validated by TraceLin, whose *)
(* scripts pipeline PART;JOIN, NICK;PRIVMSG, TOPIC;NAMES on one socket.    *)
(***************************************************************************)
EXTENDS Naturals, Sequences
CONSTANTS NCmds, DrainAfterEvent, MaxForeign
VARIABLES next, queue, out, foreign, draining
vars == <<next, queue, out, foreign, draining>>
(* command k (1..NCmds) answers directly when k is even, through the queue when k is odd; 0 = a line relayed from somebody else *)
ViaQueue(k) == k % 2 = 1

Init == next = 1 /\ queue = <<>> /\ out = <<>> /\ foreign = 0 /\ draining = FALSE

(* the select takes the next input line and runs its handler *)
HandleLine == /\ ~draining /\ next <= NCmds
              /\ IF ViaQueue(next) THEN queue' = Append(queue, next) /\ out' = out
                                   ELSE out' = Append(out, next) /\ queue' = queue
              /\ next' = next + 1 /\ draining' = DrainAfterEvent /\ UNCHANGED foreign
(* the select takes one message from the own queue and writes it out *)
TakeMessage == /\ ~draining /\ queue # <<>>
               /\ out' = Append(out, Head(queue)) /\ queue' = Tail(queue)
               /\ draining' = DrainAfterEvent /\ UNCHANGED <<next, foreign>>
(* the fix: before selecting again everything already queued is written out *)
Drain == /\ draining
         /\ IF queue = <<>> THEN draining' = FALSE /\ UNCHANGED <<queue, out>>
            ELSE out' = Append(out, Head(queue)) /\ queue' = Tail(queue) /\ UNCHANGED draining
         /\ UNCHANGED <<next, foreign>>
(* another connection's handler pushes a line into this queue at any moment *)
Foreign == /\ foreign < MaxForeign /\ queue' = Append(queue, 0) /\ foreign' = foreign + 1 /\ UNCHANGED <<next, out, draining>>

Next == HandleLine \/ TakeMessage \/ Drain \/ Foreign
Spec == Init /\ [][Next]_vars /\ WF_vars(TakeMessage) /\ WF_vars(Drain) /\ WF_vars(HandleLine)

Own(q) == SelectSeq(q, LAMBDA k : k # 0)
(* what the client reads about its own commands is in the order it sent them *)
InOrder == \A i, j \in 1..Len(Own(out)) : i < j => Own(out)[i] < Own(out)[j]
(* and everything is eventually written *)
AllAnswered == <>(Len(Own(out)) = NCmds)
=============================================================================
