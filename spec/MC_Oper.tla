------------------------------- MODULE MC_Oper -------------------------------
(* C11, C19: OPER with right/wrong name, password and source, MODE on own and foreign nicknames *)
(* with every user-mode letter and sign, nick changes to and from the configured operator name,   *)
(* operator commands from every privilege level; the incrementally kept counters against truth    *)
EXTENDS IrcModel
A == "127.0.0.1"
B == "127.0.0.2"
C == "127.0.0.3"
Cfg == [BaseCfg EXCEPT !.default_modes = {"w"},
          !.operators = << [name |-> "god", pass |-> "godpass", mask |-> <<>>],
                           [name |-> "root", pass |-> "rootpass", mask |-> <<"*!*@127.0.0.2">>] >>]
Pre == Reg(A, "alice", "u1") \o Reg(B, "bob", "u2") \o Reg(C, "Alice", "u3")
UM(c, n, ms) == St(c, "MODE", <<<<n>>, <<ms>>>>)
Acts ==
    { St(c, "OPER", <<<<n>>, <<p>>>>) : c \in {A, B}, n \in {"god", "root", "nobody"}, p \in {"godpass", "rootpass"} }
    \cup { UM(A, "alice", s \o l) : s \in {"+", "-"}, l \in {"i", "o", "O", "r", "w"} }
    \cup { UM(A, "god", "+o"), UM(A, "god", "+O"), UM(A, "god", "-oO"), UM(A, "bob", "+i"), UM(A, "nobody", "+i"), UM(A, "Alice", "+i"), UM(C, "alice", "-o+w"), UM(C, "alice", "-O"), UM(A, "alice", "+io-w+O"),
           St(A, "MODE", <<<<"alice">>>>), St(A, "NICK", <<<<"god">>>>), St(A, "NICK", <<<<"alice">>>>), St(B, "NICK", <<<<"root">>>>) }
    \cup { St(c, "KILL", <<<<"Alice">>, <<"x">>>>) : c \in {A, B} }
    \cup { St(c, "WALLOPS", <<<<"attention">>>>) : c \in {A, B} }
    \cup { St(c, "STATS", <<<<"u">>>>) : c \in {A, B} }
    \cup { St(c, "DIE", <<>>) : c \in {A, B} } \cup { St(B, "SQUIT", <<<<"irc.irc">>, <<"bye">>>>), St(A, "SQUIT", <<<<"x.y">>, <<"bye">>>>) }
    \cup { St(c, "LUSERS", <<>>) : c \in {A, C} } \cup { St(C, "ISON", <<<<"alice", "god", "nobody", "alice">>>>), St(C, "USERHOST", <<<<"alice", "bob">>>>),
           St(C, "MODE", <<<<"Alice">>, <<"-w">>>>), St(A, "QUIT", <<>>), St(B, "!rst", <<>>), St(C, "WHOIS", <<<<"alice">>>>) }
Enabled(st) == st.c \in DOMAIN S.conns
Steps == {st \in Acts : Enabled(st)}
Init == InitWith(Cfg, Pre)
Next == NextWith(Steps)
Spec == Init /\ [][Next]_vars
Depth == 6
DepthT == 7
Constraint == Len(hist) <= Len(Pre) + Depth
ASSUME PrintT(<<"CFG", ToJson(CfgJson(Cfg))>>)
=============================================================================
