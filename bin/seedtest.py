#!/usr/bin/env python3
"""seedtest.py [name ...]: apply each seeded change in /verif/seeded/<name>/patch.diff to /repo, run the quick check(s) of the property it
breaks (and optionally others), report whether a VIOLATION was raised, and restore /repo.  Results go to /verif/seeded/RESULTS.json."""
import json, os, subprocess, sys, time
VERIF = os.path.dirname(os.path.dirname(os.path.abspath(__file__)))
os.environ["VERIF_EVIDENCE_DIR"] = os.path.join(VERIF, "work", "evidence-seeded")
def sh(cmd, **kw): return subprocess.run(cmd, shell=True, stdout=subprocess.PIPE, stderr=subprocess.STDOUT, text=True, **kw)
def main():
    names = sys.argv[1:] or sorted(d for d in os.listdir(os.path.join(VERIF, "seeded")) if os.path.isdir(os.path.join(VERIF, "seeded", d)))
    resf = os.path.join(VERIF, "seeded", "RESULTS.json")
    results = json.load(open(resf)) if os.path.exists(resf) else {}
    assert sh("git -C /repo status --porcelain").stdout.strip() == "", "/repo must be clean"
    for n in names:
        d = os.path.join(VERIF, "seeded", n)
        meta = json.load(open(os.path.join(d, "meta.json")))
        props = [meta["property"]] + meta.get("also_check", [])
        a = sh("git -C /repo apply %s/patch.diff" % d)
        if a.returncode != 0:
            print(n, "PATCH DOES NOT APPLY", a.stdout[:300]); results[n] = {"applies": False}; continue
        res = {"applies": True, "checks": {}}
        try:
            for p in props:
                t0 = time.time()
                r = sh("%s/bin/check %s --tier quick" % (VERIF, p))
                viol = [l for l in r.stdout.splitlines() if l.startswith("VIOLATION")]
                res["checks"][p] = {"exit": r.returncode, "violations": len(viol), "wall_s": round(time.time() - t0), "summary": r.stdout.strip().splitlines()[-1][:300] if r.stdout.strip() else ""}
                print(n, p, "exit", r.returncode, "violations", len(viol), "%ds" % (time.time() - t0), flush=True)
        finally:
            sh("git -C /repo checkout -- .")
            sh("git -C /repo clean -fdq src")
        res["detected"] = any(c["exit"] == 1 for c in res["checks"].values())
        results[n] = res
        json.dump(results, open(resf, "w"), indent=1)
    print(json.dumps({k: v.get("detected") for k, v in results.items()}, indent=1))
if __name__ == "__main__": main()
