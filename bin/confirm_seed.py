#!/usr/bin/env python3
"""confirm_seed.py <ID> [<dirname>]: confirm a sub-agent's seeded change in its scratch worktree /tmp/seed/<ID>:
   the demo passes on the clean checkout, fails with the patch, the 38 stable tests pass with the patch; then copy it to /verif/seeded/<dirname>/."""
import json, os, re, shutil, subprocess, sys
def sh(cmd, cwd): return subprocess.run(cmd, shell=True, cwd=cwd, stdout=subprocess.PIPE, stderr=subprocess.STDOUT, text=True)
pid = sys.argv[1]; name = sys.argv[2] if len(sys.argv) > 2 else "agent-" + pid.lower()
wt, out = "/tmp/seed/" + pid, "/tmp/seed/out-" + pid
if len(sys.argv) > 4: wt, out = sys.argv[3], sys.argv[4]
meta = json.load(open(out + "/meta.json"))
cmd = meta["demo_cmd"]
m = re.search(r"cargo test[^(#\n`]*", cmd); cargo = (m.group(0) if m else cmd).strip()
def demo():
    r = sh(cargo + " 2>&1", wt)
    ok = re.search(r"test result: ok\. [1-9]\d* passed", r.stdout) is not None and "FAILED" not in r.stdout
    return ok, r.stdout[-600:]
sh("git checkout -- . && git clean -fdq src", wt)
a = sh("git apply %s/demo.diff" % out, wt); assert a.returncode == 0, a.stdout
clean_ok, t1 = demo()
if not clean_ok: clean_ok, t1 = demo()      # socket tests are flaky under load: one retry
b = sh("git apply %s/patch.diff" % out, wt); assert b.returncode == 0, b.stdout
patched_ok, t2 = demo()
# the stable suite with the patch alone (the demonstration may live in one of the stable modules)
sh("git checkout -- . && git clean -fdq src", wt)
b2 = sh("git apply %s/patch.diff" % out, wt); assert b2.returncode == 0, b2.stdout
stable = sh("cargo test --offline -- command::test config::test reply::test state::structs::test utils::test 2>&1", wt)
stable_ok = "test result: ok. 38 passed" in stable.stdout
print(pid, "demo on clean:", "PASS" if clean_ok else "FAIL", "| demo with patch:", "PASS" if patched_ok else "FAIL", "| 38 stable with patch:", "PASS" if stable_ok else "FAIL")
confirmed = clean_ok and (not patched_ok) and stable_ok
if confirmed:
    d = "/verif/seeded/" + name; os.makedirs(d, exist_ok=True)
    shutil.copy(out + "/patch.diff", d + "/patch.diff"); shutil.copy(out + "/demo.diff", d + "/demo.diff")
    meta.update({"origin": "fresh sub-agent given only the property text and a scratch worktree",
                 "confirmed": {"demo_on_clean": "pass", "demo_with_patch": "fail", "stable_38_with_patch": "pass", "ran": cargo}})
    json.dump(meta, open(d + "/meta.json", "w"), indent=1)
else:
    print(t1[-300:], "\n----\n", t2[-300:])
sys.exit(0 if confirmed else 1)
