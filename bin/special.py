"""Property-specific machinery beyond the protocol pipeline: pure-function vectors (C13, C14), keep-alive
timers (C17), concurrency rounds (C18), configuration/start-up (C20)."""
import json, os, subprocess, sys, time

def run(kind, prop, tier, seed, harness, workdir, T):
    fn = globals().get("run_" + kind)
    if not fn: return {"tool_errors": ["special machinery '%s' not built" % kind]}
    return fn(prop, tier, seed, harness, workdir, T)

def replay(r, harness):
    fn = globals().get("replay_" + r.get("kind", ""))
    if not fn:
        print("no replay for kind", r.get("kind")); return 2
    return fn(r, harness)
