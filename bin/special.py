"""Property-specific machinery beyond the protocol pipeline: pure-function vectors (C13, C14), keep-alive
timers (C17), concurrency rounds (C18), configuration/start-up (C20)."""
import shutil, json, os, subprocess, sys, time

def run(kind, prop, tier, seed, harness, workdir, T):
    fn = globals().get("run_" + kind)
    if not fn: return {"tool_errors": ["special machinery '%s' not built" % kind]}
    return fn(prop, tier, seed, harness, workdir, T)

def replay(r, harness):
    fn = globals().get("replay_" + r.get("kind", ""))
    if not fn:
        print("no replay for kind", r.get("kind")); return 2
    return fn(r, harness)

sys.path.insert(0, os.path.dirname(os.path.abspath(__file__)))
from tlcutil import run_tlc, parse_tagged, SPEC, WORK, VERIF

def _vectors(harness, kind, vec_path, res_path):
    p = subprocess.run([harness, "vectors", kind, vec_path, res_path], stdout=subprocess.PIPE, stderr=subprocess.STDOUT, text=True)
    if p.returncode != 0: return None, [], p.stdout[-2000:]
    div, summary = [], None
    for l in open(res_path, encoding="utf-8"):
        r = json.loads(l)
        if r.get("summary"): summary = r
        else: div.append(r)
    return summary, div, ""

def _viol(prop, cls, d):
    got = d.get("got", {})
    what = "panic" if "panic" in got else "hang" if "hang" in got else "differs"
    return {"kind": "vector", "class": "%s/%s" % (cls, what), "owners": [prop], "tags": ["vector:%s:%s" % (cls, what)],
            "cmd": {"verb": "VECTOR"}, "detail": d}

# ---- C14: glob matching and mask normalisation against the reference definitions ----
def run_glob(prop, tier, seed, harness, workdir, T):
    out = {"tool_errors": [], "violations": [], "coverage": {}}
    rc, o, dt = run_tlc("GlobVec.tla", "GlobVec_%s.cfg" % tier, workers=1, timeout=3000, heap="12g")
    if "Model checking completed. No error has been found." not in o:
        out["tool_errors"].append("GlobVec: " + o[-2000:]); return out
    texts = parse_tagged(o, "TEXTS"); g = parse_tagged(o, "GLOB"); n = parse_tagged(o, "NORM")
    if not texts or not g or not n:
        out["tool_errors"].append("GlobVec exported nothing"); return out
    gv = os.path.join(workdir, "glob.vec.ndjson"); nv = os.path.join(workdir, "norm.vec.ndjson")
    with open(gv, "w", encoding="utf-8") as f:
        f.write(json.dumps(texts[0], ensure_ascii=False) + "\n")
        for x in g: f.write(json.dumps(x, ensure_ascii=False) + "\n")
    with open(nv, "w", encoding="utf-8") as f:
        for x in n: f.write(json.dumps(x, ensure_ascii=False) + "\n")
    sg, dg, e1 = _vectors(harness, "glob", gv, os.path.join(workdir, "glob.res.ndjson"))
    sn, dn, e2 = _vectors(harness, "norm", nv, os.path.join(workdir, "norm.res.ndjson"))
    if sg is None or sn is None:
        out["tool_errors"].append("vectors run failed: " + e1 + e2); return out
    for d in dg: out["violations"].append(_viol(prop, "glob", d))
    for d in dn: out["violations"].append(_viol(prop, "norm", d))
    wild = sum(1 for x in g if ("*" in x["m"] or "?" in x["m"])) * len(texts[0]["texts"])
    out["coverage"] = {"special_traces": sg["vectors"] + sn["vectors"], "evaluations": sg["vectors"] + sn["vectors"],
                       "distinct_nontrivial": wild + sn["vectors"],
                       "glob_pairs": sg["vectors"], "glob_masks": len(g), "glob_texts": len(texts[0]["texts"]), "norm_masks": sn["vectors"],
                       "vector_rule": "every mask over {a,b,*,?,é} and every text over {a,b,é} up to the tier's length bounds (exhaustive within the bound), "
                                      "every mask over {a,!,@,*} for normalisation; non-trivial = the mask contains a wildcard",
                       "samples": [{"glob_vector": g[len(g) // 2]}, {"norm_vector": n[len(n) // 3]}]}
    return out

def replay_vector(r, harness):
    d = r["mismatch"]["detail"]
    cls = r["mismatch"]["class"].split("/")[0]
    tmp = os.path.join(WORK, "replay.vec.ndjson"); res = os.path.join(WORK, "replay.res.ndjson")
    os.makedirs(WORK, exist_ok=True)
    with open(tmp, "w", encoding="utf-8") as f:
        if cls == "glob":
            f.write(json.dumps({"texts": [d["req"]["t"]]}, ensure_ascii=False) + "\n")
            f.write(json.dumps({"m": d["req"]["m"], "ts": [d["req"]["t"]] if d["expected"] else []}, ensure_ascii=False) + "\n")
        elif cls == "norm":
            f.write(json.dumps({"m": d["req"]["m"], "n": d["expected"]}, ensure_ascii=False) + "\n")
        else:
            f.write(json.dumps({"line": d["req"]["line"], "exp": d["expected"]}, ensure_ascii=False) + "\n")
    if cls == "ser":
        with open(tmp, "w", encoding="utf-8") as f: f.write(json.dumps({"line": d["req"]["line"], "src": d["req"]["src"], "exp": d["expected"]}, ensure_ascii=False) + "\n")
    s, div, e = _vectors(harness, cls if cls in ("glob", "norm", "ser") else "parse", tmp, res)
    for x in div: print("REPLAY-MISMATCH", json.dumps(x, ensure_ascii=False))
    print("vector replayed:", "diverges" if div else "agrees")
    return 1 if div else 0

# ---- C13: the line grammar, verb/arity table, framing ----
VERB_FILL = {"USER": ["u", "0", "*", "r"], "JOIN": ["#c"], "PART": ["#c"], "TOPIC": ["#c"], "INVITE": ["n", "#c"], "KICK": ["#c", "n"],
             "MODE": ["#c"], "STATS": ["u"], "CONNECT": ["a.b"], "SQUIT": ["a.b", "x"], "CAP": ["LS"], "PRIVMSG": ["n", "t"], "NOTICE": ["n", "t"]}
def run_parser(prop, tier, seed, harness, workdir, T):
    out = {"tool_errors": [], "violations": [], "coverage": {}}
    rc, o, dt = run_tlc("Parser.tla", "Parser_%s.cfg" % tier, workers=1, timeout=3000, heap="12g")
    if "Model checking completed. No error has been found." not in o:
        out["tool_errors"].append("Parser: " + o[-2000:]); return out
    v = parse_tagged(o, "PARSE"); ar = parse_tagged(o, "ARITY")
    if not v or not ar:
        out["tool_errors"].append("Parser exported nothing"); return out
    # verb x letter case x arity 0..min+1 from the specification's table
    for a in ar:
        verb, mn = a["verb"], a["min"]
        fill = VERB_FILL.get(verb, ["p1", "p2", "p3", "p4", "p5"])
        while len(fill) < mn + 1: fill.append("x%d" % len(fill))
        for cased in (verb, verb.lower(), verb.capitalize(), verb[0].lower() + verb[1:]):
            for n in range(0, mn + 2):
                line = " ".join([cased] + fill[:n])
                v.append({"line": line, "exp": {"msg": "ok", "command": cased, "known": True, "enough": n >= mn}})
    for junk in ("FOO", "foo bar", "JOINN #c", "PRIVMS n :t", "123", "1234 x"):
        v.append({"line": junk, "exp": {"known": False} if not junk[0].isdigit() or len(junk.split()[0]) == 3 else {"exec": False}})
    pv = os.path.join(workdir, "parse.vec.ndjson")
    with open(pv, "w", encoding="utf-8") as f:
        for x in v: f.write(json.dumps(x, ensure_ascii=False) + "\n")
    s, d, e = _vectors(harness, "parse", pv, os.path.join(workdir, "parse.res.ndjson"))
    if s is None:
        out["tool_errors"].append("vectors run failed: " + e); return out
    for x in d: out["violations"].append(_viol(prop, "parse", x))
    # relay round trip on every grammatical line: parse, re-serialise with a source, re-parse with the harness's tokenizer
    sv = [{"line": x["line"], "src": "nick!~user@host", "exp": {"prefix": "nick!~user@host", "command": x["exp"]["command"], "params": x["exp"]["params"]}}
          for x in v if x["exp"].get("msg") == "ok" and "params" in x["exp"]]
    svp = os.path.join(workdir, "ser.vec.ndjson")
    with open(svp, "w", encoding="utf-8") as f:
        for x in sv: f.write(json.dumps(x, ensure_ascii=False) + "\n")
    s2, d2, e2 = _vectors(harness, "ser", svp, os.path.join(workdir, "ser.res.ndjson"))
    if s2 is None:
        out["tool_errors"].append("ser vectors run failed: " + e2); return out
    for x in d2: out["violations"].append(_viol(prop, "ser", x))
    nontriv = sum(1 for x in v if x["exp"].get("msg") == "ok")
    cov = {"special_traces": s["vectors"] + s2["vectors"], "evaluations": s["vectors"] + s2["vectors"], "distinct_nontrivial": nontriv, "parse_vectors": s["vectors"],
           "roundtrip_vectors": s2["vectors"],
           "vector_rule": "every line over {a,Z,1,SP,':',',','#','!','@'} up to the tier's length (exhaustive within the bound) with its reading by the "
                          "reference tokeniser; every verb x 4 letter-case variants x arity 0..min+1; non-trivial = the line is a grammatical message",
           "samples": [{"parse_vector": v[len(v) // 2]}]}
    fr = run_framing(prop, tier, seed, harness, workdir)
    out["tool_errors"] += fr["tool_errors"]; out["violations"] += fr["violations"]
    cov["special_traces"] += fr["n"]; cov["evaluations"] += fr["n"]; cov["framing_runs"] = fr["n"]; cov["samples"] += fr["samples"]
    out["coverage"] = cov
    return out

def _expected_lines(stream, limit=2000):
    """the Framer specification's semantics on concrete bytes: lines (CR stripped), fatal over-long line, tail dropped"""
    lines, buf, dead = [], b"", False
    for b in stream:
        if dead: break
        if b == 10:
            if buf.endswith(b"\r"): buf = buf[:-1]
            lines.append(buf); buf = b""
        elif len(buf) + 1 > limit:
            dead = True; buf = b""
        else:
            buf += bytes([b])
    return lines, dead

def run_framing(prop, tier, seed, harness, workdir):
    import random
    res = {"tool_errors": [], "violations": [], "n": 0, "samples": []}
    rc, o, dt = run_tlc("Framer.tla", "Framer.cfg", workers=1, timeout=900)
    if "Model checking completed. No error has been found." not in o:
        res["tool_errors"].append("Framer: " + o[-1500:]); return res
    rnd = random.Random(seed)
    tests = []
    base = b"PING t1\r\nPING t2\nPRIVMSG obs :a: b\r\n\r\nPING  t3 \r\nprivmsg obs hello\r\n"
    def add(tid, chunks, close_after=False):
        tests.append({"id": tid, "chunks": [c.hex() for c in chunks], "close_after": close_after, "stream": b"".join(chunks).hex()})
    add("whole", [base])
    step = 1 if tier == "thorough" else 3
    for i in range(1, len(base), step): add("cut1-%d" % i, [base[:i], base[i:]])
    for k in range(60 if tier == "thorough" else 12):
        i, j = sorted(rnd.sample(range(1, len(base)), 2)); add("cut2-%d-%d" % (i, j), [base[:i], base[i:j], base[j:]])
    add("bytewise", [base[i:i + 1] for i in range(len(base))])
    add("tail", [b"PING t1\r\nPRIVMSG obs :cut off"], close_after=True)
    for n in (1990, 2010, 2500, 6000):
        add("long-%d" % n, [b"PING a\r\n", b"PRIVMSG obs :" + b"x" * (n - 13) + b"\r\n", b"PRIVMSG obs :after\r\n"])
    add("long-split", [b"PING a\r\nPRIVMSG obs :" + b"y" * 1500, b"y" * 1500 + b"\r\nPING b\r\n"])
    add("nonutf8", [b"PING a\r\n", b"PRIVMSG obs :\xff\xfe\r\n", b"PING b\r\n"])
    inp = os.path.join(workdir, "frames.in.ndjson"); outp = os.path.join(workdir, "frames.out.ndjson")
    with open(inp, "w") as f:
        for t in tests: f.write(json.dumps(t) + "\n")
    p = subprocess.run([harness, "frames", inp, outp, "--port-base", "27000"], stdout=subprocess.PIPE, stderr=subprocess.STDOUT, text=True)
    if p.returncode != 0:
        res["tool_errors"].append("frames run failed: " + p.stdout[-1500:]); return res
    got = {}
    for l in open(outp, encoding="utf-8"):
        r = json.loads(l); got[r["id"]] = r
    for t in tests:
        r = got.get(t["id"])
        if r is None: res["tool_errors"].append("no result for " + t["id"]); continue
        res["n"] += 1
        stream = bytes.fromhex(t["stream"])
        nonutf = t["id"] == "nonutf8"
        lines, dead = _expected_lines(stream)
        if nonutf: lines, dead = lines[:1], True
        exp_pongs, exp_obs = [], []
        for ln in lines:
            w = ln.decode("utf-8", "replace").split()
            if not w: continue
            if w[0].upper() == "PING" and len(w) > 1: exp_pongs.append(w[1].lstrip(":"))
            if w[0].upper() == "PRIVMSG" and len(w) > 2:
                txt = ln.decode("utf-8", "replace")
                text = txt.split(" :", 1)[1] if " :" in txt else w[2]
                exp_obs.append(text)
        pongs = [m["a"][1] for m in r["tester"] if m["c"] == "PONG"]
        obs = [m["a"][1] for m in r["observer"] if m["c"] == "PRIVMSG"]
        got417 = any(m["c"] == "417" for m in r["tester"])
        eof = any(m["c"] == "EOF" for m in r["tester"])
        bad = []
        boundary = t["id"] == "long-1990"      # clearly within the limit: must be executed
        if pongs != exp_pongs: bad.append("pongs %r expected %r" % (pongs, exp_pongs))
        if obs != exp_obs: bad.append("observer got %r expected %r" % ([x[:20] for x in obs], [x[:20] for x in exp_obs]))
        if dead and not nonutf and not got417: bad.append("over-long line not answered with 417")
        if (not dead) and got417: bad.append("417 for a stream within the limit")
        if not r["raw_crlf_ok"]: bad.append("a line was not CRLF terminated")
        if (not dead) and (not t["close_after"]) and eof: bad.append("connection closed")
        if r["panics"] or r["issue"]: bad.append("panic/watchdog %r %r" % (r["panics"], r["issue"]))
        if bad:
            res["violations"].append({"kind": "vector", "class": "framing/" + t["id"].split("-")[0], "owners": [prop],
                                      "tags": ["framing"], "cmd": {"verb": "FRAMES"}, "detail": {"test": {k: t[k] for k in ("id", "chunks", "close_after")}, "why": bad}})
    res["samples"].append({"framing_test": {k: tests[5][k] for k in ("id", "chunks")}})
    return res

# ---- C17: keep-alive, design level (Keepalive.tla) and real time (timers + TraceTimers.tla) ----
def run_keepalive(prop, tier, seed, harness, workdir, T):
    out = {"tool_errors": [], "violations": [], "coverage": {}}
    rc, o, dt = run_tlc("Keepalive.tla", "Keepalive.cfg", workers=4, timeout=900)
    if "Model checking completed. No error has been found." not in o:
        out["tool_errors"].append("Keepalive model: " + o[-2500:]); return out
    from tlcutil import tlc_stats
    st = tlc_stats(o)
    rec = os.path.join(workdir, "timers.ndjson")
    p = subprocess.run([harness, "timers", rec, "--grid", tier], stdout=subprocess.PIPE, stderr=subprocess.STDOUT, text=True)
    if p.returncode != 0:
        out["tool_errors"].append("timers run failed: " + p.stdout[-1500:]); return out
    rc, o2, dt = run_tlc("TraceTimers.tla", "TraceTimers.cfg", env={"TRACE": os.path.abspath(rec)}, workers=1, timeout=300)
    if "Model checking completed. No error has been found." not in o2:
        out["tool_errors"].append("TraceTimers: " + o2[-2500:]); return out
    for e in parse_tagged(o2, "TIMERERR"): out["tool_errors"].append("timer run error: " + json.dumps(e)[:300])
    runs = [json.loads(l) for l in open(rec)]
    for t in parse_tagged(o2, "TIMER"):
        out["violations"].append({"kind": "timer", "class": "%s/%d-%d" % (t["pattern"], t["ping"], t["pong"]), "owners": [prop],
                                  "tags": ["timer:" + x for x in t["problems"]], "cmd": {"verb": "TIMER"}, "detail": t})
    out["coverage"] = {"states": st.get("distinct", 0), "transitions": st.get("generated", 0), "special_traces": len(runs),
                       "timer_runs": len(runs), "timer_rule": "Keepalive.tla: all (ping,pong) in 1..4 x 1..5 and six client patterns, exhaustive to the horizon; "
                       "real-time runs of the grid validated by TraceTimers.tla with 1 s late / 0.2 s early tolerance",
                       "samples": [{"timer_run": {k: runs[1][k] for k in ("ping", "pong", "pattern", "pings", "dropped_at", "events")}}] if len(runs) > 1 else []}
    return out

def replay_timer(r, harness):
    print("timer runs are re-executed by the check itself (real time): bin/check C17"); return 2

# ---- C18 (and the schedule half of C02): concurrent rounds searched for a linearization (TraceLin.tla) ----
def apalache_inductive(model, workdir):
    """IndInv is inductive (Init => IndInv; IndInv /\\ Next => IndInv') and implies the safety property, for ANY positive buffer sizes;
    and the same implication fails for the variant (non-vacuity).  Apalache, bounded in time."""
    import time as _t
    out = {"ok": True, "steps": {}}
    od = os.path.join(workdir, "apalache"); os.makedirs(od, exist_ok=True)
    spec = os.path.join(SPEC, model + ".tla")
    steps = [("base", ["--cinit=ConstInit", "--init=Init", "--inv=IndInv", "--length=0"], True),
             ("step", ["--cinit=ConstInit", "--init=IndInv", "--inv=IndInv", "--length=1"], True),
             ("implies", ["--cinit=ConstInit", "--init=IndInv", "--inv=NoSocketWaitUnderLock", "--length=0"], True),
             ("variant-refuted", ["--cinit=ConstInitVariant", "--init=IndInv", "--inv=NoSocketWaitUnderLock", "--length=0"], False)]
    for name, args, expect_ok in steps:
        t0 = _t.time()
        try:
            p = subprocess.run(["timeout", "900", "apalache-mc", "check"] + args + ["--out-dir=" + od, spec], cwd=od, stdout=subprocess.PIPE, stderr=subprocess.STDOUT, text=True)
            ok = "EXITCODE: OK" in p.stdout
            bad = "violated" in p.stdout
        except Exception as e:
            ok, bad = False, False
        good = (ok and not bad) if expect_ok else bad
        out["steps"][name] = {"as_expected": good, "wall_s": round(_t.time() - t0, 1)}
        if not good: out["ok"] = False
    shutil.rmtree(od, ignore_errors=True)
    return out

def run_conc_msg(prop, tier, seed, harness, workdir, T):
    """C01 under concurrency: message storms while receivers part, rename, are kicked (kind 3) and while sessions end under lock
    contention (kind 11); a round that no serial order explains is a delivery that no history of the statement allows"""
    return run_conc(prop, tier, seed, harness, workdir, T, kinds=(3, 11))

def run_conc_nick(prop, tier, seed, harness, workdir, T):
    """C15 under concurrency: simultaneous renames to one nickname (with and without lock contention), a nickname given up while
    others rename to it or claim it: a round no serial order explains has two accepted NICKs for one name, a lost user, or
    a transfer that is not whole"""
    return run_conc(prop, tier, seed, harness, workdir, T, kinds=(0, 14, 15))

def run_conc_chan(prop, tier, seed, harness, workdir, T):
    """C09 under concurrency: the issuer's rank and membership change (KICK, -o, +t, +i by others) while his TOPIC / INVITE / KICK
    are on their way behind an operator login that holds the state lock; churn on an invite-only channel"""
    return run_conc(prop, tier, seed, harness, workdir, T, kinds=(16, 16, 12))

def run_conc(prop, tier, seed, harness, workdir, T, kinds=None):
    from lincheck import lin_validate
    out = {"tool_errors": [], "violations": [], "coverage": {}}
    plan = [(2, 3), (4, 3), (16, 3)] if tier == "quick" else [(2, 12), (4, 12), (8, 8), (16, 12)]
    rounds_per = 44 if tier == "quick" else 66
    if kinds:
        plan = [(4, 3), (16, 3)] if tier == "quick" else [(2, 8), (4, 8), (16, 8)]
        rounds_per = 24 if tier == "quick" else 48
    recs, procs = [], []
    for k, (w, eps) in enumerate(plan):
        rec = os.path.join(workdir, "conc-w%d.ndjson" % w)
        procs.append((subprocess.Popen([harness, "conc", rec, "--seed", str(seed * 100 + k), "--rounds", str(rounds_per), "--workers", str(w),
                                        "--episodes", str(eps), "--port-base", str(33000 + 1000 * k)] + (["--kinds", ",".join(map(str, kinds))] if kinds else []),
                                       stdout=subprocess.PIPE, stderr=subprocess.STDOUT, text=True), rec))
    for p, rec in procs:
        o, _ = p.communicate(timeout=1500)
        if p.returncode != 0: out["tool_errors"].append("conc failed: " + o[-1500:])
        else: recs.append(rec)
    allrec = os.path.join(workdir, "conc-all.ndjson")
    with open(allrec, "w", encoding="utf-8") as f:
        for r in recs: f.write(open(r, encoding="utf-8").read())
    ok, rounds, rejected, diag, liveness, st, o = lin_validate(allrec, workers=T.get("mc_workers", 8))
    if not ok:
        out["tool_errors"].append("TraceLin: " + o[-2500:]); return out
    nick_kinds = (0, 5)
    for r in rejected:
        if prop == "C02" and r["kind"] not in nick_kinds: continue
        d = diag.get((r["b"], r["round"]), {})
        out["violations"].append({"kind": "round", "class": "kind%d" % r["kind"], "owners": [prop], "tags": ["round:not-linearizable"],
                                  "cmd": {"verb": "ROUND"}, "panics": r.get("panics"), "issue": r.get("issue"),
                                  "detail": {"round": {k: r[k] for k in ("b", "round", "kind", "cfg", "conns", "pre", "scripts", "direct", "relay", "post")}, "stuck": d}})
    for r in rounds:
        if (r.get("panics") or r.get("issue")) and prop == "C18":
            out["violations"].append({"kind": "round", "class": "run", "owners": [prop], "tags": ["round:panic-or-watchdog"], "cmd": {"verb": "ROUND"},
                                      "panics": r.get("panics"), "issue": r.get("issue"), "detail": {"b": r["b"], "round": r["round"], "scripts": r["scripts"]}})
    for l in liveness:
        if prop == "C18":
            out["violations"].append({"kind": "round", "class": "liveness", "owners": [prop], "tags": ["round:connection-not-answering"], "cmd": {"verb": "ROUND"}, "detail": l})
    ncmds = sum(len(v) for r in rounds for v in r["scripts"].values())
    out["coverage"] = {"special_traces": len(rounds), "conc_rounds": len(rounds), "conc_commands": ncmds, "conc_rejected": len(rejected),
                       "lin_states": st.get("distinct", 0), "race_point_hits": max([r.get("race_hits", 0) for r in rounds] + [0]),
                       "conc_rule": "rounds of simultaneously fired pipelined scripts (nick claims, first joins, +l races, message storms during PART/KICK/NICK, "
                                    "KILL vs QUIT vs NICK, registration races, sessions ending while others talk under lock contention, random) on 2/4/16 worker threads with seeded race points; TLC searches every "
                                    "order respecting per-connection order for one that explains replies, per-pair relay order and the final state",
                       "samples": [{"round": {"kind": rounds[0]["kind"], "scripts": rounds[0]["scripts"]}}] if rounds else []}
    return out

def replay_round(r, harness):
    """re-judge the recorded round (the schedule itself cannot be replayed)"""
    from lincheck import lin_validate
    tmp = os.path.join(WORK, "replay.round.ndjson"); os.makedirs(WORK, exist_ok=True)
    with open(tmp, "w", encoding="utf-8") as f: f.write(json.dumps(r["mismatch"]["detail"]["round"], ensure_ascii=False) + "\n")
    ok, rounds, rejected, diag, liveness, st, o = lin_validate(tmp, workers=2)
    print("round re-validated:", "rejected" if rejected else "accepted")
    return 1 if rejected else 0

# ---- C20: configuration validation at start-up, overrides, '-g' hashes, TLS transport ----
REPOBIN_DIR = os.path.join(VERIF, "harness", "target", "repobin")
def build_real_binary():
    env = dict(os.environ); env["CARGO_NET_OFFLINE"] = "true"; env.pop("RUSTFLAGS", None)
    p = subprocess.run(["cargo", "build", "--offline", "--features", "tls_rustls", "--manifest-path", "/repo/Cargo.toml", "--target-dir", REPOBIN_DIR],
                       cwd="/repo", env=env, stdout=subprocess.PIPE, stderr=subprocess.STDOUT, text=True)
    if p.returncode != 0: return None, p.stdout[-3000:]
    return os.path.join(REPOBIN_DIR, "debug", "simple-irc-server"), ""

CERT, KEY = "/repo/test_data/cert.crt", "/repo/test_data/cert_key.crt"
def toml_of(case, port, hashes):
    q = lambda s: json.dumps(s)
    L = []
    L.append("name = %s" % q("irc.verif.test" if case["name"] == "dot" else "nodotname"))
    L += ['admin_info = "admin one"', 'info = "verif server"', 'listen = "127.0.0.1"', "port = %d" % port, 'network = "VerifNet"',
          "ping_timeout = 3600", "pong_timeout = 3600", 'motd = "motd from file"', "dns_lookup = false", 'log_level = "ERROR"', "max_joins = 2"]
    pw = {"valid": hashes["srvpass"], "notbase64": "not base64 !!", "wronglen": "QUJDREVGRw"}
    if case["password"] != "absent": L.append("password = %s" % q(pw[case["password"]]))
    if case["tlsfile"] == "both": L += ["[tls]", "cert_file = %s" % q(CERT), "cert_key_file = %s" % q(KEY)]
    L += ["[default_user_modes]", "invisible = false", "oper = false", "local_oper = false", "registered = false", "wallops = true"]
    if case["operator"] != "none":
        L += ["[[operators]]", "name = %s" % q("bad.name" if case["operator"] == "badname" else "god"),
              "password = %s" % q("not base64 !!" if case["operator"] == "badhash" else hashes["godpass"])]
    if case["user"] != "none":
        L += ["[[users]]", "name = %s" % q("bad.name" if case["user"] == "badname" else "reg1"), 'nick = "reg1"']
        if case["user"] != "nopass":
            L.append("password = %s" % q({"badhash": "not base64 !!", "shorthash": "QUJD"}.get(case["user"], hashes["userpass"])))
    if case["channel"] != "none":
        L += ["[[channels]]", "name = %s" % q("nochan" if case["channel"] == "badname" else "#pre"), 'topic = "configured topic"', "[channels.modes]",
              'key = "sesame"', "moderated = false", "invite_only = false", "secret = false", "protected_topic = true", "no_external_messages = true"]
    return "\n".join(L) + "\n"

def args_of(case):
    a = []
    if case["cliname"] != "none": a += ["-n", "cli.verif.test" if case["cliname"] == "dot" else "clinodot"]
    if case["clicert"] == "present": a += ["-C", CERT]
    if case["clikey"] == "present": a += ["-K", KEY]
    return a

def run_config(prop, tier, seed, harness, workdir, T):
    import random
    out = {"tool_errors": [], "violations": [], "coverage": {}}
    binp, err = build_real_binary()
    if not binp:
        out["tool_errors"].append("building the real binary failed: " + err); return out
    rc, o, dt = run_tlc("ConfigValid.tla", "ConfigValid.cfg", workers=1, timeout=600)
    cases = parse_tagged(o, "CASE")
    if "Model checking completed. No error has been found." not in o or not cases:
        out["tool_errors"].append("ConfigValid: " + o[-2000:]); return out
    # the binary's own '-g' for the passwords used below
    pws = ["srvpass", "userpass", "godpass", "x", "pässwörd with spaces", "A" * 200, "srvpasS", "srvpass "]
    gin = os.path.join(workdir, "gen.in.ndjson"); gout = os.path.join(workdir, "gen.out.ndjson")
    with open(gin, "w", encoding="utf-8") as f:
        for i, p_ in enumerate(pws): f.write(json.dumps({"id": "g%d" % i, "genhash": p_}, ensure_ascii=False) + "\n")
    p = subprocess.run([harness, "procs", gin, gout, "--bin", binp], stdout=subprocess.PIPE, stderr=subprocess.STDOUT, text=True)
    hashes = {}
    for l in open(gout, encoding="utf-8"):
        r = json.loads(l); i = int(r["id"][1:])
        so = r.get("hash_stdout", "")
        if "Password Hash: " not in so: out["tool_errors"].append("-g printed no hash: " + json.dumps(r)[:300]); return out
        hashes[pws[i]] = so.split("Password Hash: ", 1)[1].strip()
    # selection: every single-field deviation from the valid baseline, plus a seeded sample of the product
    base = next(c for c in cases if all(c["case"][k] == v for k, v in dict(name="dot", password="absent", user="none", operator="none", channel="none",
                                                                         tlsfile="none", clicert="absent", clikey="absent", cliname="none").items()))
    sel = {json.dumps(base["case"], sort_keys=True): base}
    for c in cases:
        diff = [k for k in c["case"] if c["case"][k] != base["case"][k]]
        if len(diff) == 1: sel[json.dumps(c["case"], sort_keys=True)] = c
    rnd = random.Random(seed)
    nq = 30 if tier == "quick" else 350
    valid_cases = [c for c in cases if c["valid"]]; invalid_cases = [c for c in cases if not c["valid"]]
    for c in rnd.sample(valid_cases, min(nq, len(valid_cases))) + rnd.sample(invalid_cases, min(nq, len(invalid_cases))):
        sel[json.dumps(c["case"], sort_keys=True)] = c
    sel = list(sel.values())
    tests = []
    for i, c in enumerate(sel):
        port = 29100 + i
        cs = c["case"]
        probe = {"nick": "probe", "user": "pu"}
        if cs["password"] == "valid": probe["pass"] = ["srvpass"]
        tests.append({"id": "cfg%d" % i, "toml": toml_of(cs, port, hashes), "args": ["-p", str(port)] + args_of(cs), "port": port,
                      "tls": c["tls"], "probe": probe, "server_name": "cli.verif.test" if cs["cliname"] == "dot" else "irc.verif.test",
                      "expect": c})
    # password semantics: a hash printed by -g accepts exactly the password it was generated from
    k = len(tests)
    for j, (conf_pw, given, ok) in enumerate([("srvpass", "srvpass", True), ("srvpass", "srvpasS", False), ("srvpass", "srvpass ", False), ("srvpass", "srvpas", False),
                                              ("x", "x", True), ("pässwörd with spaces", "pässwörd with spaces", True), ("pässwörd with spaces", "password with spaces", False),
                                              ("A" * 200, "A" * 200, True), ("A" * 200, "A" * 199, False)]):
        port = 29100 + k + j
        cs = dict(base["case"])
        t = toml_of(cs, port, hashes) .replace('network = "VerifNet"', 'network = "VerifNet"\npassword = %s' % json.dumps(hashes[conf_pw]))
        tests.append({"id": "pw%d" % j, "toml": t, "args": ["-p", str(port)], "port": port, "tls": False, "server_name": "irc.verif.test",
                      "probe": {"nick": "probe", "user": "pu", "pass": [":" + given]}, "expect_pw": ok})
    # the documented example file itself (port, log file and TLS paths overridden on the command line)
    port = 29100 + len(tests)
    tests.append({"id": "example", "toml": open("/repo/config-example.toml", encoding="utf-8").read(), "port": port, "tls": True,
                  "args": ["-p", str(port), "-C", CERT, "-K", KEY, "-L", os.path.join(workdir, "example.log")], "server_name": "irci.localhost",
                  "probe": {"nick": "probe", "user": "pu", "pass": ["whatever"]}, "example": True})
    inp = os.path.join(workdir, "procs.in.ndjson")
    shards = 8
    procs_ = []
    for s_ in range(shards):
        part = tests[s_::shards]
        pi = "%s.%d" % (inp, s_); po = os.path.join(workdir, "procs.out.%d.ndjson" % s_)
        with open(pi, "w", encoding="utf-8") as f:
            for t in part: f.write(json.dumps({k_: v for k_, v in t.items() if k_ not in ("expect",)}, ensure_ascii=False) + "\n")
        procs_.append((subprocess.Popen([harness, "procs", pi, po, "--bin", binp, "--dir", os.path.join(workdir, "procs%d" % s_)],
                                        stdout=subprocess.PIPE, stderr=subprocess.STDOUT, text=True), po))
    res = {}
    for p_, po in procs_:
        o_, _ = p_.communicate(timeout=1500)
        if p_.returncode != 0: out["tool_errors"].append("procs failed: " + o_[-1000:]); continue
        for l in open(po, encoding="utf-8"):
            r = json.loads(l); res[r["id"]] = r
    def codes(r): return [m["c"] for m in r.get("welcome", [])]
    def arg(r, code):
        for m in r.get("welcome", []):
            if m["c"] == code: return m["a"]
        return None
    nvalid = 0
    for t in tests:
        r = res.get(t["id"])
        if r is None or "error" in r: out["tool_errors"].append("no result for %s: %s" % (t["id"], json.dumps(r)[:200])); continue
        bad = []
        if "expect" in t:
            e = t["expect"]
            if e["valid"]:
                nvalid += 1
                if r["exit"]: bad.append("exited with %r although the configuration is valid" % r["exit"])
                elif not r["served"]: bad.append("does not serve a valid configuration")
                else:
                    a001 = arg(r, "001"); a004 = arg(r, "004"); a372 = arg(r, "372")
                    want = "cli.verif.test" if t["expect"]["case"]["cliname"] == "dot" else "irc.verif.test"
                    if not a001 or a001[0] != "VerifNet": bad.append("001 does not carry the configured network: %r" % a001)
                    if not a004 or a004[0] != want: bad.append("004 names %r, effective name is %s" % (a004, want))
                    if not a372 or a372[0] != "motd from file": bad.append("MOTD not the configured one: %r" % a372)
                    if arg(r, "221") != ["+w"]: bad.append("default user modes not applied: %r" % arg(r, "221"))
            else:
                if r["served"]: bad.append("serves from an invalid configuration")
                if not r["exit"] or r["exit"] == [0]: bad.append("invalid configuration not refused with an error exit (exit=%r)" % r["exit"])
        elif "expect_pw" in t:
            got = "001" in codes(r)
            if got != t["expect_pw"]: bad.append("password %r against hash of another string: registered=%s expected %s" % (t["probe"]["pass"], got, t["expect_pw"]))
            if not t["expect_pw"] and "464" not in codes(r): bad.append("wrong password not answered with 464")
        elif t.get("example"):
            if not r["served"]: bad.append("config-example.toml (with port/TLS/log overrides) does not start: %s" % r.get("stderr", "")[:200])
            elif "464" not in codes(r): bad.append("example file's server password not enforced")
        if bad:
            out["violations"].append({"kind": "proc", "class": t["id"].rstrip("0123456789"), "owners": [prop], "tags": ["proc:" + b.split(":")[0][:60] for b in bad],
                                      "cmd": {"verb": "START"}, "detail": {"why": bad, "case": t.get("expect", {}).get("case"), "args": t["args"], "toml": t["toml"][:1500],
                                                                           "exit": r["exit"], "served": r["served"], "stderr": r.get("stderr", "")[:300]}})
    # TLS changes the transport only: the same behaviours over TLS and in clear must be judged alike by the specification
    tls_n = 0
    try:
        import pipeline
        ok, cfg, edges, st2, o3 = pipeline.gen_edges("MC_Nick")
        if ok and edges:
            selE = pipeline.select_edges(edges, 1 if tier == "quick" else 4, seed, 0)
            keys = {}
            for mode in ("plain", "tls"):
                c2 = dict(cfg); c2["tls"] = (mode == "tls")
                bf = os.path.join(workdir, "tls-%s.beh.ndjson" % mode)
                pipeline.write_behaviours(bf, "MC_Nick-" + mode, c2, selE)
                recs = pipeline.replay(harness, bf, os.path.join(workdir, "tls-" + mode), shards=6)
                mism, skipped, pi, n, errs = pipeline.validate(recs, parallel=6)
                for e_ in errs: out["tool_errors"].append("TLS run validation error: " + e_[1][-800:])
                keys[mode] = {(m["b"].split("-", 2)[-1], m["step"], tuple(sorted(m["tags"]))): m for m in mism}
                tls_n += len(selE)
            for k_, m in keys["tls"].items():
                if k_ not in keys["plain"]:
                    out["violations"].append({"kind": "edge", "class": "tls-only", "owners": [prop], "tags": ["tls:" + t for t in m["tags"]], "cmd": m["cmd"],
                                              "missing": m.get("missing"), "extra": m.get("extra"), "detail": {"b": m["b"], "step": m["step"]}})
        else:
            out["tool_errors"].append("MC_Nick export for the TLS run failed")
    except SystemExit:
        out["tool_errors"].append("TLS replay failed")
    out["coverage"] = {"special_traces": len(tests) + tls_n, "tls_behaviours": tls_n, "evaluations": len(tests) + tls_n, "distinct_nontrivial": len(tests), "config_cases_total": len(cases),
                       "config_cases_run": len(sel), "config_cases_valid": nvalid,
                       "config_rule": "ConfigValid.tla enumerates the product of field variants with the expected verdict; run: every single-field deviation from the valid "
                                      "baseline plus a seeded sample; password strings through the binary's own -g; config-example.toml itself",
                       "samples": [{"config_case": sel[1]["case"], "expected_valid": sel[1]["valid"]}]}
    return out

def replay_proc(r, harness):
    print("start-up cases are re-executed by the check itself: bin/check C20"); return 2

# ---- C05: the shape product in every session-state class, effect-based oracle ----
def run_shapes(prop, tier, seed, harness, workdir, T):
    import pipeline, random
    out = {"tool_errors": [], "violations": [], "coverage": {}}
    rc, o, dt = run_tlc("Shapes.tla", "Shapes_%s.cfg" % tier, workers=1, timeout=1200, heap="8g")
    lines = parse_tagged(o, "LINE")
    if "Model checking completed. No error has been found." not in o or not lines:
        out["tool_errors"].append("Shapes: " + o[-2000:]); return out
    A, B, C = "127.0.0.1", "127.0.0.2", "127.0.0.3"
    def st(c, verb, *p): return {"c": c, "cmd": {"verb": verb, "p": [list(x) for x in p]}}
    def reg(c, n, u): return [st(c, "!open"), st(c, "NICK", [n]), st(c, "USER", [u], ["Real"])]
    by = reg(A, "alice", "u1") + reg(B, "bob", "u2") + [st(A, "JOIN", ["#two"]), st(B, "JOIN", ["#two"])]
    classes = {
        "fresh": by + [st(C, "!open")],
        "halfreg": by + [st(C, "!open"), st(C, "NICK", ["carol"])],
        "alone": by + reg(C, "carol", "u3"),
        "member": by + reg(C, "carol", "u3") + [st(A, "JOIN", ["#one"]), st(C, "JOIN", ["#one"]), st(A, "MODE", ["#one"], ["+b", "*!*@*.very.long.host.example.org"])],
        "founder": by + reg(C, "carol", "u3") + [st(C, "JOIN", ["#one"]), st(A, "JOIN", ["#one"]), st(C, "MODE", ["#one"], ["+h", "alice"])],
        "oper": by + reg(C, "carol", "u3") + [st(C, "OPER", ["god"], ["godpass"]), st(C, "JOIN", ["#one"])],
        "halfop": by + reg(C, "carol", "u3") + [st(A, "JOIN", ["#one"]), st(B, "JOIN", ["#one"]), st(C, "JOIN", ["#one"]), st(A, "MODE", ["#one"], ["+h", "carol"])],
        "chanop": by + reg(C, "carol", "u3") + [st(A, "JOIN", ["#one"]), st(B, "JOIN", ["#one"]), st(C, "JOIN", ["#one"]), st(A, "MODE", ["#one"], ["+o", "carol"])],
        "protected": by + reg(C, "carol", "u3") + [st(A, "JOIN", ["#one"]), st(B, "JOIN", ["#one"]), st(C, "JOIN", ["#one"]), st(A, "MODE", ["#one"], ["+a", "carol"])],
        "lastmember": by + reg(C, "carol", "u3") + [st(C, "JOIN", ["#one"]), st(C, "MODE", ["#one"], ["-o", "carol"])],
    }
    cfg = {"operators": [{"name": "god", "pass": "godpass"}], "max_joins": [20]}
    probes = [st(A, "PRIVMSG", ["#two"], ["still: here"]), st(B, "PRIVMSG", ["alice"], ["me too"]), st(A, "ISON", ["carol", "bob"]), st(B, "LUSERS")]
    chunk = 120
    behs = []
    rnd = random.Random(seed)
    for cname, prefix in classes.items():
        ls = [l for l in lines if not (l["verb"] == "QUIT") and not (cname == "oper" and l["verb"] in ("KILL", "DIE", "SQUIT"))]
        rnd.shuffle(ls)
        for k in range(0, len(ls), chunk):
            steps = prefix + [st(C, "RAW", [l["line"]]) for l in ls[k:k + chunk]] + probes
            behs.append({"id": "shapes-%s-%d" % (cname, k // chunk), "cfg": cfg, "steps": steps, "record_from": len(prefix) + 1})
    bf = os.path.join(workdir, "shapes.beh.ndjson")
    with open(bf, "w", encoding="utf-8") as f:
        for b in behs: f.write(json.dumps(b, ensure_ascii=False) + "\n")
    recs = pipeline.replay(harness, bf, os.path.join(workdir, "shapes"), shards=T.get("shards", 10))
    mism, skipped, pi, n, errs = pipeline.validate(recs, parallel=T.get("shards", 10))
    for e in errs: out["tool_errors"].append("trace validation error in %s:\n%s" % e)
    for x in pi: out["tool_errors"].append("path issue in shapes prefix: " + json.dumps(x)[:300])
    for m in mism:
        m["kind"] = "seq"; m["behaviours"] = bf
        if prop in m.get("owners", []): out["violations"].append(m)
    out["coverage"] = {"special_traces": len(behs), "evaluations": n, "distinct_nontrivial": len(lines) * len(classes),
                       "shape_lines": len(lines), "session_classes": list(classes.keys()), "raw_steps": n,
                       "shape_rule": "Shapes.tla: every verb x arity 0..2 (+ trailing text) x parameter shape per position; each line sent in each of the session-state "
                                     "classes; effect-based oracle (connection stays open and registered, nobody else closed, invariants hold, bystander probes validated)",
                       "samples": [{"raw_line": lines[len(lines) // 3]}]}
    return out

# ---- long histories: what only shows after many sessions, renames, re-creations (the models are bounded in depth) ----
def history_behaviours():
    A, B, C, D, E = "127.0.0.1", "127.0.0.2", "127.0.0.3", "127.0.0.4", "127.0.0.5"
    def st(c, verb, *p): return {"c": c, "cmd": {"verb": verb, "p": [list(x) for x in p]}}
    def reg(c, n, u, real="Real"): return [st(c, "!open"), st(c, "NICK", [n]), st(c, "USER", [u], [real])]
    cfg = {"operators": [{"name": "god", "pass": "godpass"}]}
    out = []
    def beh(name, steps, cfg_=None): out.append({"id": "hist-" + name, "cfg": cfg_ or cfg, "steps": steps})
    # one nickname, twelve sessions from changing addresses, ending in every way; the records of all of them are kept
    steps = reg(A, "alice", "u1") + [st(A, "OPER", ["god"], ["godpass"]), st(A, "JOIN", ["#one"])]
    ends = ["QUIT", "!close", "!rst", "KILL"]
    for k in range(12):
        c = [B, C, D, E][k % 4]
        steps += reg(c, "dizzy", "d%d" % k, "Dizzy %d" % k) + [st(c, "JOIN", ["#one"]), st(c, "MODE", ["dizzy"], ["+iw"])]
        e = ends[k % 4]
        steps += [st(A, "KILL", ["dizzy"], ["bye %d" % k])] if e == "KILL" else [st(c, e)]
        steps += [st(A, "WHOWAS", ["dizzy"]), st(A, "WHOWAS", ["dizzy"], ["1"]), st(A, "LUSERS"), st(A, "ISON", ["dizzy"]), st(A, "NAMES", ["#one"]), st(A, "WALLOPS", ["anybody"])]
    beh("sessions", steps)
    # a user renames back and forth with a rank, modes and away state; lists and views after every change
    steps = reg(A, "alice", "u1") + reg(B, "bob", "u2") + reg(C, "carol", "u3") + \
            [st(A, "JOIN", ["#one"]), st(B, "JOIN", ["#one"]), st(C, "JOIN", ["#one"]), st(A, "MODE", ["#one"], ["+v", "bob"]), st(A, "MODE", ["#one"], ["+h", "carol"]),
             st(B, "MODE", ["bob"], ["+w"]), st(B, "AWAY", ["first text"])]
    for k in range(8):
        n = ["bobby", "bob"][k % 2]
        steps += [st(B, "NICK", [n]), st(A, "MODE", ["#one"]), st(A, "NAMES", ["#one"]), st(A, "WHOWAS", ["bob"]), st(A, "WHOWAS", ["bobby"], ["2"]),
                  st(B, "AWAY", ["text %d" % k]), st(A, "PRIVMSG", [n], ["are you there"]), st(C, "NICK", ["carol%d" % k]), st(A, "MODE", ["#one"])]
    steps += [st(A, "MODE", ["#one"], ["-v", "bob"]), st(A, "MODE", ["#one"]), st(B, "QUIT"), st(D, "!open"), st(D, "NICK", ["bobby"]), st(D, "USER", ["u4"], ["R"]), st(D, "JOIN", ["#one"]), st(A, "MODE", ["#one"]), st(A, "NAMES", ["#one"])]
    beh("renames", steps)
    # a channel is created, restricted, emptied and re-created again and again: nothing survives
    steps = reg(A, "alice", "u1") + reg(B, "bob", "u2") + reg(C, "carol", "u3")
    for k in range(8):
        steps += [st(B, "JOIN", ["#tmp"]), st(B, "MODE", ["#tmp"], ["+k", "key%d" % k]), st(B, "MODE", ["#tmp"], ["+l", "1"]), st(B, "MODE", ["#tmp"], ["+b", "carol"]),
                  st(B, "TOPIC", ["#tmp"], ["topic %d" % k]), st(B, "INVITE", ["alice"], ["#tmp"]), st(C, "JOIN", ["#tmp"]),
                  st(B, ["PART", "QUIT", "PART", "!close"][k % 4]) if k % 2 == 0 else st(B, "PART", ["#tmp"])]
        if k % 2 == 0:
            steps[-1] = st(B, "PART", ["#tmp"]) if k % 4 == 0 else st(B, "KICK", ["#tmp"], ["bob"])
        steps += [st(A, "LIST"), st(C, "JOIN", ["#tmp"]), st(C, "MODE", ["#tmp"]), st(C, "TOPIC", ["#tmp"]), st(A, "JOIN", ["#tmp"]), st(A, "PART", ["#tmp"]), st(C, "PART", ["#tmp"]), st(A, "LUSERS")]
    beh("recreate", steps)
    # many channels at once: forty joined and left in one command each
    many = ["#c%d" % k for k in range(40)]
    steps = reg(A, "alice", "u1") + reg(B, "bob", "u2") + [st(B, "JOIN", many[:20]), st(A, "JOIN", many), st(A, "NAMES"), st(A, "LUSERS"), st(B, "LIST"), st(A, "PART", many), st(A, "PING", ["done"]),
             st(A, "LUSERS"), st(B, "PART", many[:20], ["bye"]), st(A, "LIST"), st(A, "LUSERS")]
    beh("many", steps)
    # the joins quota at its boundary: a refused JOIN creates nothing, and room made is room
    qcfg = dict(cfg, max_joins=[3])
    steps = reg(A, "alice", "u1") + reg(B, "bob", "u2") + [st(B, "JOIN", ["#a"]), st(B, "JOIN", ["#b", "#c"]), st(B, "JOIN", ["#overflow"]), st(A, "LIST"), st(A, "NAMES", ["#overflow"]),
             st(B, "JOIN", ["#d", "#a", "#e"]), st(B, "PART", ["#a"]), st(B, "JOIN", ["#overflow"]), st(A, "LIST"), st(B, "QUIT"), st(A, "LIST"), st(A, "LUSERS"),
             st(C, "!open"), st(C, "NICK", ["bob"]), st(C, "USER", ["u3"], ["R"]), st(C, "JOIN", ["#overflow"]), st(C, "NAMES", ["#overflow"])]
    beh("quota", steps, qcfg)
    # counters over a long run of arrivals, mode changes, operator logins and departures
    steps = reg(A, "alice", "u1") + [st(A, "OPER", ["god"], ["godpass"])]
    for k in range(10):
        c = [B, C, D, E][k % 4]
        steps += reg(c, "u%dser" % k, "n%d" % k) + [st(c, "MODE", ["u%dser" % k], ["+i"]), st(c, "OPER", ["god"], ["godpass"]), st(c, "OPER", ["god"], ["godpass"]),
                  st(c, "MODE", ["u%dser" % k], ["-i+i-o"]), st(A, "LUSERS"), st(c, ["QUIT", "!rst", "!close"][k % 3]) if k % 4 else st(A, "KILL", ["u%dser" % k], ["x"]), st(A, "LUSERS"),
                  st(A, "USERHOST", ["u%dser" % k, "alice"])]
    beh("counters", steps)
    return out

def run_history(prop, harness, workdir, T):
    import pipeline
    res = {"tool_errors": [], "violations": [], "n": 0, "samples": []}
    behs = history_behaviours()
    bf = os.path.join(workdir, "hist.beh.ndjson")
    with open(bf, "w", encoding="utf-8") as f:
        for b in behs: f.write(json.dumps(b, ensure_ascii=False) + "\n")
    recs = pipeline.replay(harness, bf, os.path.join(workdir, "hist"), shards=len(behs))
    mism, skipped, pi, n, errs = pipeline.validate(recs, parallel=len(behs))
    for e in errs: res["tool_errors"].append("trace validation error in %s:\n%s" % e)
    for x in pi: res["tool_errors"].append("path issue in a long history: " + json.dumps(x)[:300])
    for m in mism:
        m["kind"] = "seq"; m["behaviours"] = bf
        if prop in m.get("owners", []): res["violations"].append(m)
    res["n"] = n
    res["samples"] = [{"long_history": b["id"], "steps": len(b["steps"])} for b in behs]
    return res

# ---- stalled receivers (C06 "unread output pending", C01 "every drain order", C05 "nobody else is stalled") ----
def stall_behaviours():
    A, B, C, D, F = "127.0.0.1", "127.0.0.2", "127.0.0.3", "127.0.0.4", "127.0.0.5"
    def st(c, verb, *p): return {"c": c, "cmd": {"verb": verb, "p": [list(x) for x in p]}}
    def reg(c, n, u): return [st(c, "!open"), st(c, "NICK", [n]), st(c, "USER", [u], ["Real"])]
    cfg = {"operators": [{"name": "god", "pass": "godpass"}]}
    base = reg(A, "alice", "u1") + reg(B, "bob", "u2") + reg(C, "carol", "u3") + reg(F, "flo", "u5") + \
           [st(A, "JOIN", ["#one"]), st(B, "JOIN", ["#one"]), st(C, "JOIN", ["#one"]), st(A, "MODE", ["#one"], ["+v", "bob"]),
            st(B, "MODE", ["bob"], ["+iw"]), st(A, "OPER", ["god"], ["godpass"]), st(B, "JOIN", ["#solo"])]
    probes = [st(A, "NAMES", ["#one"]), st(C, "WHOIS", ["bob"]), st(C, "WHOWAS", ["bob"]), st(A, "LUSERS"), st(C, "ISON", ["bob"]), st(A, "LIST"),
              st(C, "PRIVMSG", ["#one"], ["anybody: there?"]), st(A, "WALLOPS", ["ops: only"])]
    out = []
    def beh(name, steps):
        out.append({"id": "stall-" + name, "cfg": cfg, "steps": base + steps, "record_from": len(base) + 1})
    # the others are served while bob's connection is stalled; every ending of the stalled session leaves no trace
    for ending in ("!close", "!rst"):
        beh("end-" + ending.strip("!"), [st(B, "!stall", [F])] + probes + [st(B, ending)] + probes + reg(D, "bob", "u4") + [st(D, "JOIN", ["#one"])] + probes)
    # KILL of a stalled user: the signal stays pending, the nick stays taken until the socket ends, then it is free; a newcomer keeps it
    beh("kill-reuse", [st(B, "!stall", [F]), st(A, "KILL", ["bob"], ["go: away"]), st(A, "KILL", ["bob"], ["again"])] + probes +
        [st(D, "!open"), st(D, "NICK", ["bob"]), st(D, "USER", ["u4"], ["Real"]), st(B, "!rst"), st(D, "NICK", ["bob"]), st(D, "JOIN", ["#one"]),
         st(D, "MODE", ["bob"], ["+w"])] + probes + [st(F, "PRIVMSG", ["bob"], ["welcome: back"])])
    # a stalled user is renamed, kicked, parted by others' actions; two sessions (one stalled) end at once
    beh("kick-nick", [st(B, "!stall", [F]), st(A, "KICK", ["#one"], ["bob"], ["out"]), st(A, "INVITE", ["bob"], ["#one"])] + probes + [st(B, "!close"), st(C, "QUIT")] + [q for q in probes if q["c"] == A])
    # a client that does not read asks for long replies itself: its task blocks in a write; nobody else may be held up by that
    writers = [st(C, "JOIN", ["#new"]), st(C, "MODE", ["#new"], ["+t"]), st(A, "MODE", ["#one"], ["+m"]), st(C, "PART", ["#new"]), st(F, "NICK", ["florence"]),
               st(D, "!open"), st(D, "NICK", ["dora"]), st(D, "USER", ["u4"], ["Real"]), st(D, "JOIN", ["#one"])]
    beh("selfflood", [st(B, "!stall", [B])] + writers + probes + [st(B, "!rst")] + probes)
    return out

def run_stall(prop, harness, workdir, T):
    import pipeline
    res = {"tool_errors": [], "violations": [], "n": 0, "samples": []}
    behs = stall_behaviours()
    bf = os.path.join(workdir, "stall.beh.ndjson")
    with open(bf, "w", encoding="utf-8") as f:
        for b in behs: f.write(json.dumps(b, ensure_ascii=False) + "\n")
    recs = pipeline.replay(harness, bf, os.path.join(workdir, "stall"), shards=len(behs))
    mism, skipped, pi, n, errs = pipeline.validate(recs, parallel=len(behs))
    for e in errs: res["tool_errors"].append("trace validation error in %s:\n%s" % e)
    for x in pi: res["tool_errors"].append("path issue in stall prefix: " + json.dumps(x)[:300])
    for m in mism:
        m["kind"] = "seq"; m["behaviours"] = bf
        if any("stall failed" in i for i in m.get("issue", [])):
            res["tool_errors"].append("could not stall a connection: " + json.dumps(m.get("issue"))); continue
        if prop in m.get("owners", []): res["violations"].append(m)
    res["n"] = n
    res["samples"] = [{"stall_behaviour": [s_["cmd"]["verb"] for s_ in behs[2]["steps"][behs[2]["record_from"] - 1:]][:14]}]
    return res
