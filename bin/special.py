"""Property-specific machinery beyond the protocol pipeline: pure-function vectors (C13, C14), keep-alive
timers (C17), concurrency rounds (C18), configuration/start-up (C20)."""
import json, os, subprocess, sys, time

def run(kind, prop, tier, seed, harness, workdir, T):
    fn = globals().get("run_" + kind)
    if not fn: return {"tool_errors": ["special machinery '%s' not built" % kind]}
    return fn(prop, tier, seed, harness, workdir, T)

def replay(r, harness):
    fn = globals().get("replay_" + r.get("kind", ""))
    if not fn:
        print("no replay for kind", r.get("kind")); return 2
    return fn(r, harness)

sys.path.insert(0, os.path.dirname(os.path.abspath(__file__)))
from tlcutil import run_tlc, parse_tagged, SPEC, WORK, VERIF

def _vectors(harness, kind, vec_path, res_path):
    p = subprocess.run([harness, "vectors", kind, vec_path, res_path], stdout=subprocess.PIPE, stderr=subprocess.STDOUT, text=True)
    if p.returncode != 0: return None, [], p.stdout[-2000:]
    div, summary = [], None
    for l in open(res_path, encoding="utf-8"):
        r = json.loads(l)
        if r.get("summary"): summary = r
        else: div.append(r)
    return summary, div, ""

def _viol(prop, cls, d):
    got = d.get("got", {})
    what = "panic" if "panic" in got else "hang" if "hang" in got else "differs"
    return {"kind": "vector", "class": "%s/%s" % (cls, what), "owners": [prop], "tags": ["vector:%s:%s" % (cls, what)],
            "cmd": {"verb": "VECTOR"}, "detail": d}

# ---- C14: glob matching and mask normalisation against the reference definitions ----
def run_glob(prop, tier, seed, harness, workdir, T):
    out = {"tool_errors": [], "violations": [], "coverage": {}}
    rc, o, dt = run_tlc("GlobVec.tla", "GlobVec_%s.cfg" % tier, workers=1, timeout=3000, heap="12g")
    if "Model checking completed. No error has been found." not in o:
        out["tool_errors"].append("GlobVec: " + o[-2000:]); return out
    texts = parse_tagged(o, "TEXTS"); g = parse_tagged(o, "GLOB"); n = parse_tagged(o, "NORM")
    if not texts or not g or not n:
        out["tool_errors"].append("GlobVec exported nothing"); return out
    gv = os.path.join(workdir, "glob.vec.ndjson"); nv = os.path.join(workdir, "norm.vec.ndjson")
    with open(gv, "w", encoding="utf-8") as f:
        f.write(json.dumps(texts[0], ensure_ascii=False) + "\n")
        for x in g: f.write(json.dumps(x, ensure_ascii=False) + "\n")
    with open(nv, "w", encoding="utf-8") as f:
        for x in n: f.write(json.dumps(x, ensure_ascii=False) + "\n")
    sg, dg, e1 = _vectors(harness, "glob", gv, os.path.join(workdir, "glob.res.ndjson"))
    sn, dn, e2 = _vectors(harness, "norm", nv, os.path.join(workdir, "norm.res.ndjson"))
    if sg is None or sn is None:
        out["tool_errors"].append("vectors run failed: " + e1 + e2); return out
    for d in dg: out["violations"].append(_viol(prop, "glob", d))
    for d in dn: out["violations"].append(_viol(prop, "norm", d))
    wild = sum(1 for x in g if ("*" in x["m"] or "?" in x["m"])) * len(texts[0]["texts"])
    out["coverage"] = {"special_traces": sg["vectors"] + sn["vectors"], "evaluations": sg["vectors"] + sn["vectors"],
                       "distinct_nontrivial": wild + sn["vectors"],
                       "glob_pairs": sg["vectors"], "glob_masks": len(g), "glob_texts": len(texts[0]["texts"]), "norm_masks": sn["vectors"],
                       "vector_rule": "every mask over {a,b,*,?,é} and every text over {a,b,é} up to the tier's length bounds (exhaustive within the bound), "
                                      "every mask over {a,!,@,*} for normalisation; non-trivial = the mask contains a wildcard",
                       "samples": [{"glob_vector": g[len(g) // 2]}, {"norm_vector": n[len(n) // 3]}]}
    return out

def replay_vector(r, harness):
    d = r["mismatch"]["detail"]
    cls = r["mismatch"]["class"].split("/")[0]
    tmp = os.path.join(WORK, "replay.vec.ndjson"); res = os.path.join(WORK, "replay.res.ndjson")
    os.makedirs(WORK, exist_ok=True)
    with open(tmp, "w", encoding="utf-8") as f:
        if cls == "glob":
            f.write(json.dumps({"texts": [d["req"]["t"]]}, ensure_ascii=False) + "\n")
            f.write(json.dumps({"m": d["req"]["m"], "ts": [d["req"]["t"]] if d["expected"] else []}, ensure_ascii=False) + "\n")
        elif cls == "norm":
            f.write(json.dumps({"m": d["req"]["m"], "n": d["expected"]}, ensure_ascii=False) + "\n")
        else:
            f.write(json.dumps({"line": d["req"]["line"], "exp": d["expected"]}, ensure_ascii=False) + "\n")
    s, div, e = _vectors(harness, cls if cls in ("glob", "norm") else "parse", tmp, res)
    for x in div: print("REPLAY-MISMATCH", json.dumps(x, ensure_ascii=False))
    print("vector replayed:", "diverges" if div else "agrees")
    return 1 if div else 0

# ---- C13: the line grammar, verb/arity table, framing ----
VERB_FILL = {"USER": ["u", "0", "*", "r"], "JOIN": ["#c"], "PART": ["#c"], "TOPIC": ["#c"], "INVITE": ["n", "#c"], "KICK": ["#c", "n"],
             "MODE": ["#c"], "STATS": ["u"], "CONNECT": ["a.b"], "SQUIT": ["a.b", "x"], "CAP": ["LS"], "PRIVMSG": ["n", "t"], "NOTICE": ["n", "t"]}
def run_parser(prop, tier, seed, harness, workdir, T):
    out = {"tool_errors": [], "violations": [], "coverage": {}}
    rc, o, dt = run_tlc("Parser.tla", "Parser_%s.cfg" % tier, workers=1, timeout=3000, heap="12g")
    if "Model checking completed. No error has been found." not in o:
        out["tool_errors"].append("Parser: " + o[-2000:]); return out
    v = parse_tagged(o, "PARSE"); ar = parse_tagged(o, "ARITY")
    if not v or not ar:
        out["tool_errors"].append("Parser exported nothing"); return out
    # verb x letter case x arity 0..min+1 from the specification's table
    for a in ar:
        verb, mn = a["verb"], a["min"]
        fill = VERB_FILL.get(verb, ["p1", "p2", "p3", "p4", "p5"])
        while len(fill) < mn + 1: fill.append("x%d" % len(fill))
        for cased in (verb, verb.lower(), verb.capitalize(), verb[0].lower() + verb[1:]):
            for n in range(0, mn + 2):
                line = " ".join([cased] + fill[:n])
                v.append({"line": line, "exp": {"msg": "ok", "command": cased, "known": True, "enough": n >= mn}})
    for junk in ("FOO", "foo bar", "JOINN #c", "PRIVMS n :t", "123", "1234 x"):
        v.append({"line": junk, "exp": {"known": False} if not junk[0].isdigit() or len(junk.split()[0]) == 3 else {"exec": False}})
    pv = os.path.join(workdir, "parse.vec.ndjson")
    with open(pv, "w", encoding="utf-8") as f:
        for x in v: f.write(json.dumps(x, ensure_ascii=False) + "\n")
    s, d, e = _vectors(harness, "parse", pv, os.path.join(workdir, "parse.res.ndjson"))
    if s is None:
        out["tool_errors"].append("vectors run failed: " + e); return out
    for x in d: out["violations"].append(_viol(prop, "parse", x))
    nontriv = sum(1 for x in v if x["exp"].get("msg") == "ok")
    cov = {"special_traces": s["vectors"], "evaluations": s["vectors"], "distinct_nontrivial": nontriv, "parse_vectors": s["vectors"],
           "vector_rule": "every line over {a,Z,1,SP,':',',','#','!','@'} up to the tier's length (exhaustive within the bound) with its reading by the "
                          "reference tokeniser; every verb x 4 letter-case variants x arity 0..min+1; non-trivial = the line is a grammatical message",
           "samples": [{"parse_vector": v[len(v) // 2]}]}
    fr = run_framing(prop, tier, seed, harness, workdir)
    out["tool_errors"] += fr["tool_errors"]; out["violations"] += fr["violations"]
    cov["special_traces"] += fr["n"]; cov["evaluations"] += fr["n"]; cov["framing_runs"] = fr["n"]; cov["samples"] += fr["samples"]
    out["coverage"] = cov
    return out

def _expected_lines(stream, limit=2000):
    """the Framer specification's semantics on concrete bytes: lines (CR stripped), fatal over-long line, tail dropped"""
    lines, buf, dead = [], b"", False
    for b in stream:
        if dead: break
        if b == 10:
            if buf.endswith(b"\r"): buf = buf[:-1]
            lines.append(buf); buf = b""
        elif len(buf) + 1 > limit:
            dead = True; buf = b""
        else:
            buf += bytes([b])
    return lines, dead

def run_framing(prop, tier, seed, harness, workdir):
    import random
    res = {"tool_errors": [], "violations": [], "n": 0, "samples": []}
    rc, o, dt = run_tlc("Framer.tla", "Framer.cfg", workers=1, timeout=900)
    if "Model checking completed. No error has been found." not in o:
        res["tool_errors"].append("Framer: " + o[-1500:]); return res
    rnd = random.Random(seed)
    tests = []
    base = b"PING t1\r\nPING t2\nPRIVMSG obs :a: b\r\n\r\nPING  t3 \r\nprivmsg obs hello\r\n"
    def add(tid, chunks, close_after=False):
        tests.append({"id": tid, "chunks": [c.hex() for c in chunks], "close_after": close_after, "stream": b"".join(chunks).hex()})
    add("whole", [base])
    step = 1 if tier == "thorough" else 3
    for i in range(1, len(base), step): add("cut1-%d" % i, [base[:i], base[i:]])
    for k in range(60 if tier == "thorough" else 12):
        i, j = sorted(rnd.sample(range(1, len(base)), 2)); add("cut2-%d-%d" % (i, j), [base[:i], base[i:j], base[j:]])
    add("bytewise", [base[i:i + 1] for i in range(len(base))])
    add("tail", [b"PING t1\r\nPRIVMSG obs :cut off"], close_after=True)
    for n in (1990, 2010, 2500, 6000):
        add("long-%d" % n, [b"PING a\r\n", b"PRIVMSG obs :" + b"x" * (n - 13) + b"\r\n", b"PRIVMSG obs :after\r\n"])
    add("long-split", [b"PING a\r\nPRIVMSG obs :" + b"y" * 1500, b"y" * 1500 + b"\r\nPING b\r\n"])
    add("nonutf8", [b"PING a\r\n", b"PRIVMSG obs :\xff\xfe\r\n", b"PING b\r\n"])
    inp = os.path.join(workdir, "frames.in.ndjson"); outp = os.path.join(workdir, "frames.out.ndjson")
    with open(inp, "w") as f:
        for t in tests: f.write(json.dumps(t) + "\n")
    p = subprocess.run([harness, "frames", inp, outp, "--port-base", "27000"], stdout=subprocess.PIPE, stderr=subprocess.STDOUT, text=True)
    if p.returncode != 0:
        res["tool_errors"].append("frames run failed: " + p.stdout[-1500:]); return res
    got = {}
    for l in open(outp, encoding="utf-8"):
        r = json.loads(l); got[r["id"]] = r
    for t in tests:
        r = got.get(t["id"])
        if r is None: res["tool_errors"].append("no result for " + t["id"]); continue
        res["n"] += 1
        stream = bytes.fromhex(t["stream"])
        nonutf = t["id"] == "nonutf8"
        lines, dead = _expected_lines(stream)
        if nonutf: lines, dead = lines[:1], True
        exp_pongs, exp_obs = [], []
        for ln in lines:
            w = ln.decode("utf-8", "replace").split()
            if not w: continue
            if w[0].upper() == "PING" and len(w) > 1: exp_pongs.append(w[1].lstrip(":"))
            if w[0].upper() == "PRIVMSG" and len(w) > 2:
                txt = ln.decode("utf-8", "replace")
                text = txt.split(" :", 1)[1] if " :" in txt else w[2]
                exp_obs.append(text)
        pongs = [m["a"][1] for m in r["tester"] if m["c"] == "PONG"]
        obs = [m["a"][1] for m in r["observer"] if m["c"] == "PRIVMSG"]
        got417 = any(m["c"] == "417" for m in r["tester"])
        eof = any(m["c"] == "EOF" for m in r["tester"])
        bad = []
        boundary = t["id"] == "long-1990"      # clearly within the limit: must be executed
        if pongs != exp_pongs: bad.append("pongs %r expected %r" % (pongs, exp_pongs))
        if obs != exp_obs: bad.append("observer got %r expected %r" % ([x[:20] for x in obs], [x[:20] for x in exp_obs]))
        if dead and not nonutf and not got417: bad.append("over-long line not answered with 417")
        if (not dead) and got417: bad.append("417 for a stream within the limit")
        if not r["raw_crlf_ok"]: bad.append("a line was not CRLF terminated")
        if (not dead) and (not t["close_after"]) and eof: bad.append("connection closed")
        if r["panics"] or r["issue"]: bad.append("panic/watchdog %r %r" % (r["panics"], r["issue"]))
        if bad:
            res["violations"].append({"kind": "vector", "class": "framing/" + t["id"].split("-")[0], "owners": [prop],
                                      "tags": ["framing"], "cmd": {"verb": "FRAMES"}, "detail": {"test": {k: t[k] for k in ("id", "chunks", "close_after")}, "why": bad}})
    res["samples"].append({"framing_test": {k: tests[5][k] for k in ("id", "chunks")}})
    return res

# ---- C17: keep-alive, design level (Keepalive.tla) and real time (timers + TraceTimers.tla) ----
def run_keepalive(prop, tier, seed, harness, workdir, T):
    out = {"tool_errors": [], "violations": [], "coverage": {}}
    rc, o, dt = run_tlc("Keepalive.tla", "Keepalive.cfg", workers=4, timeout=900)
    if "Model checking completed. No error has been found." not in o:
        out["tool_errors"].append("Keepalive model: " + o[-2500:]); return out
    from tlcutil import tlc_stats
    st = tlc_stats(o)
    rec = os.path.join(workdir, "timers.ndjson")
    p = subprocess.run([harness, "timers", rec, "--grid", tier], stdout=subprocess.PIPE, stderr=subprocess.STDOUT, text=True)
    if p.returncode != 0:
        out["tool_errors"].append("timers run failed: " + p.stdout[-1500:]); return out
    rc, o2, dt = run_tlc("TraceTimers.tla", "TraceTimers.cfg", env={"TRACE": os.path.abspath(rec)}, workers=1, timeout=300)
    if "Model checking completed. No error has been found." not in o2:
        out["tool_errors"].append("TraceTimers: " + o2[-2500:]); return out
    for e in parse_tagged(o2, "TIMERERR"): out["tool_errors"].append("timer run error: " + json.dumps(e)[:300])
    runs = [json.loads(l) for l in open(rec)]
    for t in parse_tagged(o2, "TIMER"):
        out["violations"].append({"kind": "timer", "class": "%s/%d-%d" % (t["pattern"], t["ping"], t["pong"]), "owners": [prop],
                                  "tags": ["timer:" + x for x in t["problems"]], "cmd": {"verb": "TIMER"}, "detail": t})
    out["coverage"] = {"states": st.get("distinct", 0), "transitions": st.get("generated", 0), "special_traces": len(runs),
                       "timer_runs": len(runs), "timer_rule": "Keepalive.tla: all (ping,pong) in 1..4 x 1..5 and six client patterns, exhaustive to the horizon; "
                       "real-time runs of the grid validated by TraceTimers.tla with 1 s late / 0.2 s early tolerance",
                       "samples": [{"timer_run": {k: runs[1][k] for k in ("ping", "pong", "pattern", "pings", "dropped_at", "events")}}] if len(runs) > 1 else []}
    return out

def replay_timer(r, harness):
    print("timer runs are re-executed by the check itself (real time): bin/check C17"); return 2

# ---- C18 (and the schedule half of C02): concurrent rounds searched for a linearization (TraceLin.tla) ----
def run_conc(prop, tier, seed, harness, workdir, T):
    from lincheck import lin_validate
    out = {"tool_errors": [], "violations": [], "coverage": {}}
    plan = [(2, 2), (4, 2), (16, 2)] if tier == "quick" else [(2, 10), (4, 10), (8, 6), (16, 10)]
    rounds_per = 20 if tier == "quick" else 40
    recs, procs = [], []
    for k, (w, eps) in enumerate(plan):
        rec = os.path.join(workdir, "conc-w%d.ndjson" % w)
        procs.append((subprocess.Popen([harness, "conc", rec, "--seed", str(seed * 100 + k), "--rounds", str(rounds_per), "--workers", str(w),
                                        "--episodes", str(eps), "--port-base", str(33000 + 1000 * k)],
                                       stdout=subprocess.PIPE, stderr=subprocess.STDOUT, text=True), rec))
    for p, rec in procs:
        o, _ = p.communicate()
        if p.returncode != 0: out["tool_errors"].append("conc failed: " + o[-1500:])
        else: recs.append(rec)
    allrec = os.path.join(workdir, "conc-all.ndjson")
    with open(allrec, "w", encoding="utf-8") as f:
        for r in recs: f.write(open(r, encoding="utf-8").read())
    ok, rounds, rejected, diag, liveness, st, o = lin_validate(allrec, workers=T.get("mc_workers", 8))
    if not ok:
        out["tool_errors"].append("TraceLin: " + o[-2500:]); return out
    nick_kinds = (0, 5)
    for r in rejected:
        if prop == "C02" and r["kind"] not in nick_kinds: continue
        d = diag.get((r["b"], r["round"]), {})
        out["violations"].append({"kind": "round", "class": "kind%d" % r["kind"], "owners": [prop], "tags": ["round:not-linearizable"],
                                  "cmd": {"verb": "ROUND"}, "panics": r.get("panics"), "issue": r.get("issue"),
                                  "detail": {"round": {k: r[k] for k in ("b", "round", "kind", "cfg", "conns", "pre", "scripts", "direct", "relay", "post")}, "stuck": d}})
    for r in rounds:
        if (r.get("panics") or r.get("issue")) and prop == "C18":
            out["violations"].append({"kind": "round", "class": "run", "owners": [prop], "tags": ["round:panic-or-watchdog"], "cmd": {"verb": "ROUND"},
                                      "panics": r.get("panics"), "issue": r.get("issue"), "detail": {"b": r["b"], "round": r["round"], "scripts": r["scripts"]}})
    for l in liveness:
        if prop == "C18":
            out["violations"].append({"kind": "round", "class": "liveness", "owners": [prop], "tags": ["round:connection-not-answering"], "cmd": {"verb": "ROUND"}, "detail": l})
    ncmds = sum(len(v) for r in rounds for v in r["scripts"].values())
    out["coverage"] = {"special_traces": len(rounds), "conc_rounds": len(rounds), "conc_commands": ncmds, "conc_rejected": len(rejected),
                       "lin_states": st.get("distinct", 0), "race_point_hits": max([r.get("race_hits", 0) for r in rounds] + [0]),
                       "conc_rule": "rounds of simultaneously fired pipelined scripts (nick claims, first joins, +l races, message storms during PART/KICK/NICK, "
                                    "KILL vs QUIT vs NICK, registration races, random) on 2/4/16 worker threads with seeded race points; TLC searches every "
                                    "order respecting per-connection order for one that explains replies, per-pair relay order and the final state",
                       "samples": [{"round": {"kind": rounds[0]["kind"], "scripts": rounds[0]["scripts"]}}] if rounds else []}
    return out

def replay_round(r, harness):
    """re-judge the recorded round (the schedule itself cannot be replayed)"""
    from lincheck import lin_validate
    tmp = os.path.join(WORK, "replay.round.ndjson"); os.makedirs(WORK, exist_ok=True)
    with open(tmp, "w", encoding="utf-8") as f: f.write(json.dumps(r["mismatch"]["detail"]["round"], ensure_ascii=False) + "\n")
    ok, rounds, rejected, diag, liveness, st, o = lin_validate(tmp, workers=2)
    print("round re-validated:", "rejected" if rejected else "accepted")
    return 1 if rejected else 0
