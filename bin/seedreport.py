#!/usr/bin/env python3
"""seedreport.py: markdown table of the seeded changes and which quick checks caught them (from seeded/*/meta.json and seeded/RESULTS.json)"""
import json, os
V = os.path.dirname(os.path.dirname(os.path.abspath(__file__)))
res = json.load(open(os.path.join(V, "seeded", "RESULTS.json")))
rows = []
for n in sorted(os.listdir(os.path.join(V, "seeded"))):
    d = os.path.join(V, "seeded", n)
    if not os.path.isdir(d): continue
    m = json.load(open(os.path.join(d, "meta.json")))
    r = res.get(n, {})
    checks = r.get("checks", {})
    caught = [p for p, c in checks.items() if c.get("exit") == 1]
    quiet = [p for p, c in checks.items() if c.get("exit") == 0]
    what = (m.get("what_breaks") or m.get("needs_to_manifest") or m.get("what") or "")
    what = " ".join(what.split())[:150]
    if m.get("benign"):
        verdict = "quiet (as required)" if not caught and checks else ("ALARM by " + ",".join(caught) if caught else "not run")
    else:
        verdict = ("caught by " + ",".join(caught)) if caught else ("MISSED" if checks else "not run")
    rows.append("| `%s` | %s | %s | %s |" % (n, m.get("property"), what.replace("|", "/"), verdict))
print("| seeded change | property | what it is / needs | quick checks |\n|---|---|---|---|")
print("\n".join(rows))
