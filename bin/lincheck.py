#!/usr/bin/env python3
"""validate a recording of concurrent rounds with TraceLin; on rejection re-run the rejected rounds with diagnostics"""
import json, os, sys
sys.path.insert(0, os.path.dirname(os.path.abspath(__file__)))
from tlcutil import *
from tlcutil import WORK

def _lin_one(path, diag):
    env = {"TRACE": os.path.abspath(path)}
    if diag: env["DIAG"] = "1"
    # one worker per TLC process: TLC loses PrintT lines when several workers print concurrently
    rc, out, dt = run_tlc("TraceLin.tla", "TraceLin.cfg", env=env, workers=1, timeout=1500, heap="4g")
    return out

def lin_validate(recording, workers=8, timeout=1500):
    from concurrent.futures import ThreadPoolExecutor
    recs = [json.loads(l) for l in open(recording, encoding="utf-8") if l.strip()]
    rounds = [r for r in recs if "scripts" in r]
    liveness = [r for r in recs if r.get("liveness")]
    # small shards (at most ~60 rounds each): short searches, bounded queues
    n = max(1, min(len(rounds), max(workers, (len(rounds) + 59) // 60)))
    parts = []
    for k in range(n):
        p = "%s.part%d" % (recording, k)
        with open(p, "w", encoding="utf-8") as f:
            for r in rounds[k::n]: f.write(json.dumps(r, ensure_ascii=False) + "\n")
        parts.append(p)
    with ThreadPoolExecutor(max_workers=max(1, min(workers, n))) as ex:
        outs = list(ex.map(lambda p: _lin_one(p, False), parts))
    # a shard TLC could not evaluate (a recorded state no behaviour of the specification reaches, met in the middle of the
    # search): re-run its rounds one by one; a round that still cannot be evaluated is reported as not explainable
    unevaluable = set()
    fixed_outs = []
    for p, o in zip(parts, outs):
        if "Model checking completed. No error has been found." in o:
            fixed_outs.append(o); os.unlink(p); continue
        rs = [json.loads(l) for l in open(p, encoding="utf-8") if l.strip()]
        os.unlink(p)
        for k, r in enumerate(rs):
            single = "%s.single%d" % (p, k)
            with open(single, "w", encoding="utf-8") as f: f.write(json.dumps(r, ensure_ascii=False) + "\n")
            o1 = _lin_one(single, False)
            os.unlink(single)
            if "Model checking completed. No error has been found." in o1: fixed_outs.append(o1)
            else:
                unevaluable.add((r["b"], r["round"]))
                open(os.path.join(WORK, "lin-uneval-%s-%d.out" % (r["b"], r["round"])), "w", encoding="utf-8").write(o1[-6000:])
    outs = fixed_outs
    ok = True
    bad = [o for o in outs if "Model checking completed. No error has been found." not in o]
    out = "\n".join(bad) if bad else "\n".join(outs)
    acc = {(a["b"], a["round"]) for o in outs for a in parse_tagged(o, "ACCEPT")}
    ill = {(a["b"], a["round"]) for o in outs for a in parse_tagged(o, "ILLFORMED")}
    rejected = [r for r in rounds if (r["b"], r["round"]) not in acc and (r["b"], r["round"]) not in ill]
    diag = {}
    st = {"distinct": sum(tlc_stats(o).get("distinct", 0) for o in outs), "generated": sum(tlc_stats(o).get("generated", 0) for o in outs)}
    if ok and rejected:
        tmp = recording + ".rej.ndjson"
        with open(tmp, "w", encoding="utf-8") as f:
            for r in rejected: f.write(json.dumps(r, ensure_ascii=False) + "\n")
        out2 = _lin_one(tmp, True)
        for s in parse_tagged(out2, "STUCK"):
            k = (s["b"], s["round"])
            if k not in diag or sum(s["pos"].values()) > sum(diag[k]["pos"].values()): diag[k] = s
    for k in unevaluable: diag.setdefault(k, {"pos": {}, "consumed": False, "statediff": ["specification could not be evaluated on the recorded data"], "next": {}})
    return ok, rounds, rejected, diag, liveness, st, out

if __name__ == "__main__":
    ok, rounds, rejected, diag, liveness, st, out = lin_validate(sys.argv[1])
    print("tlc ok", ok, st, "rounds", len(rounds), "rejected", [(r["b"], r["round"], r["kind"]) for r in rejected], "liveness failures", len(liveness))
    if not ok: print(out[-2500:])
    for k, s in list(diag.items())[:8]:
        print("ROUND", k, "best pos", s["pos"], "consumed", s["consumed"], "statediff", s["statediff"])
        for c, n in (s["next"].items() if isinstance(s["next"], dict) else []):
            print("   ", c, n["cmd"])
            print("       expected", [(m["to"][-1], m["k"], m["c"], m["a"]) for m in n["expected"]][:10])
            print("       got_direct", [(m["k"], m["c"], m["a"]) for m in n["got_direct"]][:10])
            print("       got_relay", {x[-1]: [(m["c"], m["a"]) for m in L][:5] for x, L in n.get("got_relay", {}).items() if L})
