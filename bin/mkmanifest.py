#!/usr/bin/env python3
"""(Re)generate /verif/MANIFEST.json from the table below: one place to keep claims, commands and notes in sync."""
import json, subprocess, os
VERIF = os.path.dirname(os.path.dirname(os.path.abspath(__file__)))
props = [json.loads(l) for l in open(os.path.join(VERIF, "properties.jsonl"))]
ids = [p["id"] for p in props]

COMMON_NOTE = ("Trusted base: TLC; the hook snapshot (cfg simple_irc_server_verif) projecting the server state; the harness's wire "
               "abstraction (harness/src/absmsg.rs); Tokio's schedules are sampled, not enumerated. Exhaustive only within the models' constants.")
CLAIMS = {
 "C01": ("MC_Msg: TLC checks delivery = Audience (exactly one copy, true prefix, target/text as sent) on every transition of a 512-state combination product; every transition replayed on the real server; random histories validated step by step; delivery to and around stalled receivers; concurrent message storms while receivers part, rename, are kicked or disconnect under lock contention, accepted only if TraceLin finds a serial order that explains every copy", "7/C01 and 0.5"),
 "C02": ("MC_Reg: ownership invariant and 'acts only as itself' step property over all orders of registration steps, refusals and closes of contending connections; replay + random histories; concurrent claim rounds (see C18)", "7/C02"),
 "C03": ("MC_Gate: the registration gate (451 for every gated verb, password/mask/CAP conditions, 464 closes) under server password and configured users; replay of the whole graph", "7/C03"),
 "C04": ("MC_Chan/MC_Join: membership symmetry invariant, the NAMES/WHO/WHOIS views equal the member set in every state, every change announced; replay + random histories", "7/C04"),
 "C05": ("Shapes.tla: verb x arity x parameter-shape product enumerated by TLC; every line sent in each session-state class (unregistered, half-registered, alone, member, founder, operator, last member) with an effect-based oracle (sender stays connected and registered, nobody else closed, invariants hold, bystander probes validated by the specification); random histories validated step by step; LockFlush.tla: design model of \"replies are buffered under the state lock and flushed after it is released\" - TLC: no handler waits for a socket under the lock, every reading client keeps being served (liveness under fairness), the flush-under-lock variant wedges; Apalache: inductive invariant for any buffer sizes (thorough); bound to the code by the stalled-receiver scenarios (a client that stops reading and floods itself with long replies)", "7/C05 and 0.2"),
 "C06": ("MC_End: teardown = Erase with the frame condition written out, for QUIT/close/reset/half line/KILL at every reachable state; replay + random histories", "7/C06"),
 "C07": ("MC_Join, MC_Invite: handler admits iff the declarative Admissible, refusal changes nothing and yields only matching numerics; full product of key/ban/exception/invite/limit/quota; replay", "7/C07"),
 "C08": ("MC_Mode: per-letter privilege table against the handler for every letter, sign, actor and target rank incl. composite strings; enforcement probes; replay", "7/C08"),
 "C09": ("MC_Kti: MayKick/MayTopic/MayInvite against the handlers for all rank pairs, lists with absent/repeated/own names, last member; MC_Invite: an invitation is one admission - it survives a JOIN refused for another reason (+l, key, ban, quota) and is used up by the JOIN it admits; replay", "7/C09"),
 "C10": ("MC_Msg: delivery iff MaySpeak, 404 for PRIVMSG, no line at all for NOTICE, 301 for away recipients; MC_Speak: histories of lawful and refused changes to the restrictions (b/e/m/n/s/v by operator, plain members, outsiders) followed by attempts to speak - a refused change leaves every restriction as it was; replay + random histories", "7/C10"),
 "C11": ("MC_Oper: operator status appears only through a valid OPER (or default modes), MODE never changes other users, privilege matrix of KILL/DIE/SQUIT/WALLOPS/STATS; replay", "7/C11"),
 "C12": ("MC_Hide: every LIST/NAMES/WHO/WHOIS form answered as in the world without the secret channel / invisible user (2-safety decided by comparing with Hide(S)); replay", "7/C12"),
 "C13": ("Parser.tla: reference tokeniser, serialiser round trip, verb/arity table; every line up to the length bound as a vector for the real tokeniser/classifier; Framer.tla chunking invariance + framing runs on the wire", "7/C13"),
 "C14": ("GlobVec.tla: reference Glob/Normalize with algebraic laws; every mask x text up to the bound as vectors for match_wildcard/normalize_sourcemask in a child process (panic, hang, wrong answer); MC_Mask: corner-case masks through +b/+e/+I, JOIN, PRIVMSG, OPER, user mask, WHO, WHOIS on the wire", "7/C14"),
 "C15": ("MC_Nick: handler = substitution of the nickname in every nick-keyed container, refusals change nothing; probes under the new name; replay", "7/C15"),
 "C20": ("ConfigValid.tla: product of configuration-field variants with the expected start-up verdict and effective settings; the real binary started on every single-field deviation plus a seeded sample; -g hashes accept exactly their password; config-example.toml loads; the same behaviours over TLS and in clear are judged alike", "7/C20"),
 "C16": ("MC_Life: Fresh channel on creation, removal with the last member by every exit, preconfigured channel persistence and configured ranks; replay", "7/C16"),
 "C17": ("Keepalive.tla: discrete-time model of waker, pong timeouts and notifier, all (ping,pong) in 1..4 x 1..5 and six client patterns checked exhaustively (live kept, dead dropped on time); real-time runs of the grid validated by TraceTimers.tla; PING/PONG token echo in every random history", "7/C17"),
 "C18": ("TraceLin.tla: concurrent rounds (2/4/16 worker threads, seeded race points at the lock-release windows) accepted only if TLC finds a serial order of all commands that explains every socket's reply order, per-pair relay order and the final state; MC_Reg explores all orders of registration steps at design level", "6"),
 "C19": ("MC_Oper/MC_Slots/MC_Query: incrementally kept counters equal derived truth on every state, the maximum is the high-water mark, LUSERS/ISON/USERHOST replies true (flags, repeated, unknown and differently-cased names), connection slots freed by every ending; every query command form in MC_Query; replay + random histories", "7/C19"),
}
BUILT = sorted(CLAIMS)
checks = []
for pid in BUILT:
    text, ref = CLAIMS[pid]
    checks.append({
        "property_id": pid,
        "quick_cmd": "bin/check %s --tier quick" % pid,
        "thorough_cmd": "bin/check %s --tier thorough" % pid,
        "evidence_file": "/verif/evidence/%s.json" % pid,
        "replay_cmd_template": "bin/check %s --replay {path}" % pid,
        "engine": "tla-spec",
        "level_claimed": {"category": "model_checking", "text": text, "design_ref": "DESIGN.md section " + ref},
        "level_note": COMMON_NOTE,
        "technique": "explicit TLA+ specification checked with TLC; bound to the code by replaying TLC-generated behaviours into the real server and validating recorded executions against the specification (trace validation)",
    })
hooks_commit = subprocess.run(["git", "-C", "/repo", "log", "--format=%H", "--grep", "verif hooks"], capture_output=True, text=True).stdout.split()
m = {"version": 1,
     "setup_cmd": "cd /verif/harness && cargo build --offline && cd /verif/spec && for m in IrcSpec IrcProps IrcModel TraceSeq TraceLin GlobVec Parser Framer Keepalive ConfigValid LockFlush; do [ -f $m.tla ] && tla-sany $m.tla >/dev/null || true; done",
     "hooks": {"guard": "simple_irc_server_verif",
               "enable": "RUSTFLAGS='--cfg simple_irc_server_verif' via /verif/harness/.cargo/config.toml; the harness compiles /repo/src by #[path]",
               "baseline_off_cmd": "cd /repo && cargo test --offline --no-fail-fast -- command::test config::test reply::test state::structs::test utils::test",
               "source_commits": hooks_commit, "add_only": True},
     "engines": [{"name": "tla-spec", "path": "/verif/spec", "serves_properties": BUILT,
                  "kind_free_text": "TLA+ specification (IrcSpec/IrcProps/IrcProj + 17 MC_* models, MC_RegMicro, LockFlush, TraceSeq, TraceLin, GlobVec, Parser, Framer, Shapes, Keepalive, TraceTimers, ConfigValid) checked with TLC; Rust conformance harness in /verif/harness"}],
     "checks": checks,
     "notes": "See DESIGN.md. bin/check <id> --tier quick|thorough; exit 0 held, 1 VIOLATION, 2 tool error.",
     "not_applicable": [{"property_id": p, "reason": "check under construction in this session (planned in DESIGN.md section 7); not claimed until it runs green on the unchanged tree"} for p in ids if p not in BUILT]}
json.dump(m, open(os.path.join(VERIF, "MANIFEST.json"), "w"), indent=1)
print("claimed:", BUILT)
