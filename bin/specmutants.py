#!/usr/bin/env python3
"""Vacuity drill for the specification: every listed property that is decided on the protocol models is stated twice -
operationally by the handlers of IrcSpec.tla and declaratively in IrcProps.tla - and TLC checks that they agree on every
transition of the finite models.  That check is only worth something if the declarative side *bites*.  This script mutates
the handlers (one small textual change each, written after realistic code faults: a dropped test, a wrong rank, a forgotten
container) in a scratch copy of spec/, and runs TLC with ONLY the declarative formulation of the property the mutant is
aimed at.  A mutant that TLC does not reject means the property's formula (or the model's reach) is too weak.

usage: specmutants.py [--only C07] [--jobs 4] [--out work/specmutants.json]
exit 0 always when the tool ran (a surviving mutant is a weakness of the machinery, not a violation of the code); 2 on tool errors.
"""
import json, os, re, shutil, subprocess, sys, tempfile, time
from concurrent.futures import ThreadPoolExecutor
sys.path.insert(0, os.path.dirname(os.path.abspath(__file__)))
from tlcutil import VERIF, SPEC, WORK

# formulas that state each property (beyond <P>_Step, which is added when IrcProps defines it)
STATE = {
    "C02": ["Inv_Owner"], "C04": ["Inv_Sym", "Inv_C04Views"], "C06": [], "C16": ["Inv_C16", "Inv_EmptyChan"],
    "C19": ["Inv_Counters"], "C11": ["Inv_Wallops"],
}

M = []
def mut(pid, model, name, find, repl, file="IrcSpec.tla"):
    M.append(dict(id="%s-%s" % (pid, name), property=pid, model=model, file=file, find=find, repl=repl))

# ---- C01
mut("C01", "MC_Msg", "echo-to-sender", r"IF tg.ranks = {} THEN Members(ch) \ {n}", r"IF tg.ranks = {} THEN Members(ch)")
mut("C01", "MC_Msg", "status-prefix-any-rank", r"ELSE {m \in Members(ch) \ {n} : ch.members[m] \cap tg.ranks # {}}",
    r"ELSE {m \in Members(ch) \ {n} : ch.members[m] # {}}")
mut("C01", "MC_Msg", "repeated-target-twice", r"Flat(MapSet(ToSet(targets), One))", r"Flat([i \in 1..Len(targets) |-> One(targets[i])])")
mut("C01", "MC_Msg", "forged-source", r"ELSE MapSet(Audience(S, c, t), LAMBDA m : Rel(S.users[m].host, k.src, verb, <<t, text>>))",
    r"ELSE MapSet(Audience(S, c, t), LAMBDA m : Rel(S.users[m].host, NickOf(S, c), verb, <<t, text>>))")
# ---- C02
mut("C02", "MC_Reg", "teardown-ignores-authed", r"S1 == IF k.authed /\ k.nick # <<>> /\ k.nick[1] \in DOMAIN S.users",
    r"S1 == IF k.nick # <<>> /\ k.nick[1] \in DOMAIN S.users")
mut("C02", "MC_Reg", "no-recheck-at-insert", "    ELSE IF n \\in DOMAIN S.users\n    THEN (* the nickname was taken", "    ELSE IF FALSE\n    THEN (* the nickname was taken")
mut("C02", "MC_Self", "mode-changes-foreign-user", "HModeUser(S, c, target, groups) ==\n    LET n == NickOf(S, c)", "HModeUser(S, c, target, groups) ==\n    LET n == IF target \\in DOMAIN S.users THEN target ELSE NickOf(S, c)")
mut("C02", "MC_Self", "away-marks-somebody-else", "HAway(S, c, text) ==\n    LET n == NickOf(S, c) IN", "HAway(S, c, text) ==\n    LET n == CHOOSE m \\in DOMAIN S.users : m # NickOf(S, c) IN")
# ---- C03
mut("C03", "MC_Gate", "any-password", r"good == reqpw = <<>> \/ (k.pass # <<>> /\ k.pass[1] = reqpw[1])", r"good == reqpw = <<>> \/ k.pass # <<>>")
mut("C03", "MC_Gate", "user-password-ignored", r"reqpw == IF ui # 0 /\ ucfg.pass # <<>> THEN ucfg.pass ELSE S.cfg.password", r"reqpw == S.cfg.password")
mut("C03", "MC_Gate", "gate-open-for-names", r"ELSE IF ~S.conns[c].authed /\ v \notin PreRegVerbs THEN", r'ELSE IF ~S.conns[c].authed /\ v \notin PreRegVerbs \cup {"LUSERS", "MOTD"} THEN')
mut("C03", "MC_Gate", "capneg-ignored", r"IF k.capneg \/ k.nick = <<>> \/ k.uname = <<>> THEN Res(S, <<>>)", r"IF k.nick = <<>> \/ k.uname = <<>> THEN Res(S, <<>>)")
mut("C03", "MC_Gate", "mask-ignored", r"maskBad == ui # 0 /\ ucfg.mask # <<>> /\ ~Glob(ucfg.mask[1], k.src)", r"maskBad == FALSE")
# ---- C04
mut("C04", "MC_Chan", "stale-user-chans", r"THEN SetUser(S1, n, [S1.users[n] EXCEPT !.chans = S1.users[n].chans \ {x}])", r"THEN S1")
mut("C04", "MC_Chan", "ghost-rank-entry", r"!.rs = [r \in RankSet |-> ch.rs[r] \ {n}]]", r"!.rs = ch.rs]")
mut("C04", "MC_Chan", "part-not-told-to-leaver", "out |-> acc.out \\o MapSet(Members(T.chans[x]),\n", "out |-> acc.out \\o MapSet(Members(T.chans[x]) \\ {n},\n")
mut("C04", "MC_Join", "join-not-announced", r"\o MapSet(Members(ch) \ {n}, LAMBDA m : Rel(S2.users[m].host, k.src, " + '"JOIN"' + r", <<x>>))", r"\o <<>>")
# ---- C06
mut("C06", "MC_End", "wallops-entry-stays", r"!.wallops = S.wallops \ {n}]", r"!.wallops = S.wallops]")
mut("C06", "MC_End", "memberships-stay", r"S2 == LeaveAll(S1, u.chans, n)", r"S2 == S1")
mut("C06", "MC_End", "oper-count-stays", r"!.operCnt = IF IsOper(u) THEN S.operCnt - 1 ELSE S.operCnt,", r"!.operCnt = S.operCnt,")
mut("C06", "MC_End", "no-whowas", r"IN AddWhowas(S2, n, HistEntry(u))", r"IN S2")
# ---- C07
mut("C07", "MC_Join", "exception-ignored", r'ELSE IF Banned(ch, k.src) THEN "474"', r'ELSE IF (\E b \in ch.ban : Glob(b, k.src)) THEN "474"')
mut("C07", "MC_Join", "limit-off-by-one", r"Cardinality(Members(ch)) >= ch.limit[1]", r"Cardinality(Members(ch)) > ch.limit[1]")
mut("C07", "MC_Join", "invitation-reusable", r"[u EXCEPT !.chans = u.chans \cup {x}, !.invited = u.invited \ {x}]", r"[u EXCEPT !.chans = u.chans \cup {x}]")
mut("C07", "MC_Join", "key-not-compared", r"IF ch.key # <<>> /\ (keyopt = <<>> \/ keyopt[1] # ch.key[1]) THEN", r"IF ch.key # <<>> /\ keyopt = <<>> THEN")
mut("C07", "MC_Join", "quota-off-by-one", r"over == maxj # <<>> /\ acc.cnt >= maxj[1]", r"over == maxj # <<>> /\ acc.cnt > maxj[1]")
# ---- C08
mut("C08", "MC_Mode", "halfop-gives-op", r'[] letter \in {"o", "h"} -> RkOperator(r)', r'[] letter \in {"o", "h"} -> RkHalfOp(r)')
mut("C08", "MC_Mode", "unset-not-announced", r"ELSE [a0 EXCEPT !.ch = [ch EXCEPT !.flags = ch.flags \ {ltr}], !.unset = acc.unset \o ltr]",
    r"ELSE [a0 EXCEPT !.ch = [ch EXCEPT !.flags = ch.flags \ {ltr}]]")
mut("C08", "MC_Mode", "refused-ban-still-applied", r"ELSE [a0 EXCEPT !.ai = acc.ai + 1, !.out = a0.out \o << Num(S, c, " + '"482"' + r", <<x>>) >>]" + "\n         ELSE (* no argument",
    r"ELSE [a0 EXCEPT !.ch = [ch EXCEPT !.ban = {}], !.ai = acc.ai + 1, !.out = a0.out \o << Num(S, c, " + '"482"' + r", <<x>>) >>]" + "\n         ELSE (* no argument")
mut("C08", "MC_Mode", "announced-to-old-members-only", r"THEN MapSet(Members(d.ch), LAMBDA m : Rel(S.users[m].host, k.src, " + '"MODE"' + ", a))",
    r"THEN MapSet(Members(d.ch) \ {n}, LAMBDA m : Rel(S.users[m].host, k.src, " + '"MODE"' + ", a))")
# ---- C09
mut("C09", "MC_Kti", "topic-lock-ignored", r'ELSE IF "t" \in ch.flags /\ ~RkHalfOp(ch.members[n]) THEN', r"ELSE IF FALSE THEN")
mut("C09", "MC_Kti", "halfop-kicks-op", r"IF RkProtected(ch.members[v]) \/ (RkHalfOp(ch.members[v]) /\ onlyHalf)", r"IF RkProtected(ch.members[v])")
mut("C09", "MC_Kti", "invite-needs-no-op", r'ELSE IF "i" \in ch.flags /\ "o" \notin ch.members[n] THEN', r"ELSE IF FALSE THEN")
mut("C09", "MC_Kti", "kick-by-anyone", "    ELSE IF ~RkHalfOp(ch.members[n]) THEN Res(S, << Num(S, c, \"482\", <<x>>) >>)\n    ELSE\n    LET onlyHalf",
    "    ELSE IF FALSE THEN Res(S, << Num(S, c, \"482\", <<x>>) >>)\n    ELSE\n    LET onlyHalf")
# ---- C10
mut("C10", "MC_Msg", "ban-does-not-silence", r"/\ ~Banned(ch, S.conns[c].src)", r"/\ TRUE")
mut("C10", "MC_Msg", "moderated-any-member", r'/\ ("m" \notin ch.flags \/ (member /\ RkVoice(ch.members[n])))', r'/\ ("m" \notin ch.flags \/ member)')
mut("C10", "MC_Msg", "notice-answered", r'THEN IF notice THEN <<>> ELSE << Num(S, c, "404", <<tg.chan>>) >>', r'THEN << Num(S, c, "404", <<tg.chan>>) >>')
mut("C10", "MC_Msg", "secret-not-noexternal", r'/\ (member \/ ("n" \notin ch.flags /\ "s" \notin ch.flags))', r'/\ (member \/ "n" \notin ch.flags)')
# ---- C11
mut("C11", "MC_Oper", "mode-plus-o-grants", r'THEN IF has THEN acc ELSE [acc EXCEPT !.out = acc.out \o << Num(S, c, "481", <<>>) >>]',
    r"THEN IF has THEN acc ELSE [acc EXCEPT !.u.modes = u.modes \cup {ltr}, !.oper = acc.oper + 1, !.set = acc.set \o ltr]")
mut("C11", "MC_Oper", "kill-by-anyone", r'IF "o" \notin S.users[n].modes THEN Res(S, << Num(S, c, "481", <<>>) >>)', r'IF FALSE THEN Res(S, << Num(S, c, "481", <<>>) >>)')
mut("C11", "MC_Oper", "oper-any-password", r"ELSE IF pw # ocfg.pass THEN", r"ELSE IF FALSE THEN")
mut("C11", "MC_Oper", "wallops-to-all", r"ELSE MapSet(S.wallops, LAMBDA m :", r"ELSE MapSet(DOMAIN S.users, LAMBDA m :")
mut("C11", "MC_Oper", "foreign-mode", "HModeUser(S, c, target, groups) ==\n    LET n == NickOf(S, c)", "HModeUser(S, c, target, groups) ==\n    LET n == IF target \\in DOMAIN S.users THEN target ELSE NickOf(S, c)")
mut("C11", "MC_Oper", "die-by-anyone", r'IF "o" \notin S.users[n].modes THEN Res(S, << Num(S, c, "483", <<>>) >>)', r'IF FALSE THEN Res(S, << Num(S, c, "483", <<>>) >>)')
# ---- C12
mut("C12", "MC_Hide", "list-shows-secret", r'ELSE MapSet({x \in DOMAIN S.chans : "s" \notin S.chans[x].flags}, LAMBDA x : ListLine(S, c, x)))',
    r"ELSE MapSet(DOMAIN S.chans, LAMBDA x : ListLine(S, c, x)))")
mut("C12", "MC_Hide", "whois-shows-secret", r'\o MapSet({x \in u.chans : "s" \notin S.chans[x].flags},', r"\o MapSet(u.chans,")
mut("C12", "MC_Hide", "invisible-visible", r'VisibleTo(S, asker, n) == "i" \notin S.users[n].modes \/ Shares(S, asker, n)', r"VisibleTo(S, asker, n) == TRUE")
mut("C12", "MC_Hide", "names-secret-outsider", r'IN IF "s" \notin ch.flags \/ inch' + "\n       THEN MapSet(vis,", r"IN IF TRUE" + "\n       THEN MapSet(vis,")
mut("C12", "MC_Hide", "who-secret-outsider", r'THEN IF mask \in DOMAIN S.chans /\ ("s" \notin S.chans[mask].flags \/ me \in Members(S.chans[mask]))', r"THEN IF mask \in DOMAIN S.chans")
# ---- C15
mut("C15", "MC_Nick", "wallops-keeps-old-nick", r"!.wallops = IF old \in S.wallops THEN (S.wallops \ {old}) \cup {n} ELSE S.wallops]", r"!.wallops = S.wallops]")
mut("C15", "MC_Nick", "rank-lost-on-rename", r"THEN (ch.rs[r] \ {old}) \cup {new} ELSE ch.rs[r]]]", r"THEN ch.rs[r] \ {old} ELSE ch.rs[r]]]")
mut("C15", "MC_Nick", "rename-to-taken", "    IF n = old THEN Res(S, <<>>)\n    ELSE IF n \\in DOMAIN S.users THEN Res(S, << Num433(c, n) >>)", "    IF n = old THEN Res(S, <<>>)\n    ELSE IF FALSE THEN Res(S, << Num433(c, n) >>)")
mut("C15", "MC_Nick", "no-whowas-on-rename", r"S2 == AddWhowas(S1, old, HistEntry(u))", r"S2 == S1")
mut("C15", "MC_Nick", "modes-dropped", r"u2 == [u EXCEPT !.src = k2.src]", r"u2 == [u EXCEPT !.src = k2.src, !.away = <<>>]")
# ---- C16
mut("C16", "MC_Life", "preconfigured-dies", r"IF Members(ch) = {} /\ ~ch.preconf", r"IF Members(ch) = {}")
mut("C16", "MC_Life", "empty-channel-stays", r"IF Members(ch) = {} /\ ~ch.preconf", r"IF FALSE")
mut("C16", "MC_Life", "founder-only-op", r'members |-> (n :> {"q", "o"}), rs |-> [r \in RankSet |-> IF r \in {"q", "o"} THEN {n} ELSE {}],',
    r'members |-> (n :> {"o"}), rs |-> [r \in RankSet |-> IF r \in {"o"} THEN {n} ELSE {}],')
mut("C16", "MC_Life", "default-ranks-forgotten", r"LET r == {x \in RankSet : n \in ch.def[x]} IN", r"LET r == {} IN")
# ---- C19
mut("C19", "MC_Oper", "oper-twice-counts-twice", r"!.operCnt = IF IsOper(u) THEN S.operCnt ELSE S.operCnt + 1]", r"!.operCnt = S.operCnt + 1]")
mut("C19", "MC_Oper", "ison-lists-absent", r'IF nicks[i] \in DOMAIN S.users THEN << Num(S, c, "303i", <<nicks[i]>>) >> ELSE <<>>])', r'<< Num(S, c, "303i", <<nicks[i]>>) >>])')
mut("C19", "MC_Query", "max-not-high-water", r"!.maxUsers = IF nu > S.maxUsers THEN nu ELSE S.maxUsers]", r"!.maxUsers = nu]")
mut("C19", "MC_Slots", "slot-leaks", r"!.connCnt = S1.connCnt - 1]", r"!.connCnt = IF k.authed THEN S1.connCnt - 1 ELSE S1.connCnt]")
mut("C19", "MC_Slots", "limit-off-by-one", r"S.connCnt >= S.cfg.max_connections[1]", r"S.connCnt > S.cfg.max_connections[1]")
mut("C19", "MC_Oper", "userhost-no-oper-flag", r'nicks[i] \o (IF IsOper(u) THEN "*" ELSE "") \o "="', r'nicks[i] \o "="')
mut("C19", "MC_Oper", "invisible-count-drifts", r'THEN IF sign /\ ~has THEN [acc EXCEPT !.u.modes = u.modes \cup {"i"}, !.inv = acc.inv + 1, !.set = acc.set \o "i"]',
    r'THEN IF sign THEN [acc EXCEPT !.u.modes = u.modes \cup {"i"}, !.inv = acc.inv + 1, !.set = acc.set \o "i"]')

def props_defined():
    src = open(os.path.join(SPEC, "IrcProps.tla")).read()
    return set(re.findall(r"^(C\d\d)_Step\(", src, re.M))

def run_one(m, timeout):
    t0 = time.time()
    d = tempfile.mkdtemp(prefix="mut_", dir=WORK)
    try:
        for f in os.listdir(SPEC):
            if f.endswith(".tla"): shutil.copy(os.path.join(SPEC, f), d)
        p = os.path.join(d, m["file"])
        src = open(p).read()
        if src.count(m["find"]) != 1:
            return dict(m, status="stale", detail="pattern occurs %d times" % src.count(m["find"]), wall_s=0)
        open(p, "w").write(src.replace(m["find"], m["repl"]))
        # per-property action formulas appended to the model module's parent
        mp = os.path.join(d, "IrcModel.tla")
        ms = open(mp).read()
        extra = "".join("Step_%s == [][%s_Step(S, ev'.c, ev'.cmd, [st |-> S', out |-> ev'.out])]_vars\n" % (q, q) for q in sorted(props_defined()))
        ms = ms.replace("\n=====", "\n" + extra + "=====", 1)
        open(mp, "w").write(ms)
        pid = m["property"]
        cfg = ["SPECIFICATION Spec", "VIEW CheckView", "CONSTRAINT Constraint", "CHECK_DEADLOCK FALSE"]
        if pid in props_defined(): cfg.append("PROPERTY Step_%s" % pid)
        for inv in STATE.get(pid, []): cfg.append("INVARIANT %s" % inv)
        open(os.path.join(d, "mut.cfg"), "w").write("\n".join(cfg) + "\n")
        e = dict(os.environ)
        e["JAVA_TOOL_OPTIONS"] = "-Xss1g -Xmx6g -Dfile.encoding=UTF-8 -Dstdout.encoding=UTF-8 -Dsun.stdout.encoding=UTF-8"
        cmd = ["timeout", str(timeout), "tlc", "-workers", "4", "-metadir", os.path.join(d, "meta"), "-cleanup", "-noGenerateSpecTE",
               "-config", "mut.cfg", m["model"] + ".tla"]
        r = subprocess.run(cmd, cwd=d, env=e, stdout=subprocess.PIPE, stderr=subprocess.STDOUT, encoding="utf-8", errors="replace")
        out = r.stdout
        killed_by = re.findall(r"Invariant (\w+) is violated|Action property (\w+) is violated|property (\w+) is violated", out)
        names = sorted({x for t in killed_by for x in t if x})
        if names: st = "killed"
        elif "Model checking completed. No error has been found." in out: st = "survived"
        elif re.search(r"evaluating|Error: .*(exception|overridden|attempted)", out, re.I) and "is violated" not in out:
            # a mutant that makes the specification itself ill-defined (an unevaluable expression) is not a verdict of the property
            st = "unevaluable"
        else: st = "toolerror"
        res = dict(id=m["id"], property=pid, model=m["model"], status=st, by=names, wall_s=round(time.time() - t0, 1))
        if st in ("toolerror", "unevaluable"): res["tail"] = out[-600:]
        return res
    finally:
        shutil.rmtree(d, ignore_errors=True)

def main():
    a = sys.argv[1:]
    only = a[a.index("--only") + 1] if "--only" in a else None
    jobs = int(a[a.index("--jobs") + 1]) if "--jobs" in a else 3
    outp = a[a.index("--out") + 1] if "--out" in a else os.path.join(WORK, "specmutants.json")
    timeout = int(a[a.index("--timeout") + 1]) if "--timeout" in a else 900
    ms = [m for m in M if not only or m["property"] == only or m["id"] == only]
    os.makedirs(WORK, exist_ok=True)
    with ThreadPoolExecutor(max_workers=jobs) as ex:
        res = list(ex.map(lambda m: run_one(m, timeout), ms))
    for r in res:
        print("%-34s %-9s %-10s %s %ss" % (r["id"], r["model"], r["status"], ",".join(r.get("by", [])) or r.get("detail", ""), r["wall_s"]))
        if r["status"] in ("toolerror", "unevaluable"): print("    " + r.get("tail", "").replace("\n", "\n    "))
    summary = dict(total=len(res), killed=sum(r["status"] == "killed" for r in res), survived=[r["id"] for r in res if r["status"] == "survived"],
                   other=[r["id"] for r in res if r["status"] not in ("killed", "survived")], results=res)
    json.dump(summary, open(outp, "w"), indent=1)
    print("SPEC-MUTANTS total=%d killed=%d survived=%d other=%d" % (summary["total"], summary["killed"], len(summary["survived"]), len(summary["other"])))
    return 2 if any(r["status"] == "toolerror" for r in res) else 0

if __name__ == "__main__":
    sys.exit(main())
