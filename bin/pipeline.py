#!/usr/bin/env python3
"""The pipeline shared by all protocol checks:
   model check (bridge 1)  ->  export transitions  ->  replay against the server  ->  validate recordings with TLC."""
import json, os, subprocess, sys, time, hashlib, random, shutil
from concurrent.futures import ThreadPoolExecutor
sys.path.insert(0, os.path.dirname(os.path.abspath(__file__)))
from tlcutil import *

def build_harness(release=False):
    """rebuild the harness (and with it the server sources under /repo) with the hooks on"""
    lock_src = "/repo/Cargo.lock"
    lock_dst = os.path.join(HARNESS_DIR, "Cargo.lock")
    # keep the dependency versions the repository pins; the harness adds none of its own
    if os.path.exists(lock_src) and not os.path.exists(lock_dst):
        shutil.copy(lock_src, lock_dst)
    cmd = ["cargo", "build", "--offline"] + (["--release"] if release else [])
    env = dict(os.environ); env["CARGO_NET_OFFLINE"] = "true"
    p = subprocess.run(cmd, cwd=HARNESS_DIR, env=env, stdout=subprocess.PIPE, stderr=subprocess.STDOUT, text=True)
    if p.returncode != 0:
        sys.stderr.write(p.stdout[-6000:])
        raise SystemExit(2)
    return os.path.join(HARNESS_DIR, "target", "release" if release else "debug", "harness")

def model_check(model, workers=8, timeout=1500, cfg="MC_check.cfg"):
    rc, out, dt = run_tlc(model + ".tla", cfg, workers=workers, timeout=timeout, heap="8g")
    ok = "Model checking completed. No error has been found." in out
    st = tlc_stats(out)
    # TLC's disk-backed state queue mangles non-ASCII strings (see tlcutil.run_tlc): a model with such text must stay small
    try:
        nonascii = any(ord(ch) > 127 for ch in open(os.path.join(SPEC, model + ".tla"), encoding="utf-8").read())
    except Exception:
        nonascii = False
    if ok and nonascii and st.get("distinct", 0) > 8000:
        ok = False; out += "\nTOOL: model %s contains non-ASCII text and has more than 8000 states: TLC's state queue may spill to disk and corrupt it\n" % model
    return ok, st, out, dt

def gen_edges(model, workers=8, timeout=3000, cfg="MC_gen.cfg"):
    """every transition of the model with a shortest behaviour reaching it"""
    # one worker: TLC loses PrintT lines when several workers print concurrently
    rc, out, dt = run_tlc(model + ".tla", cfg, workers=1, timeout=timeout, heap="8g")
    ok = "Model checking completed. No error has been found." in out
    cfgs = parse_tagged(out, "CFG")
    edges = parse_tagged(out, "EDGE")
    st = tlc_stats(out)
    try:
        nonascii = any(ord(ch) > 127 for ch in open(os.path.join(SPEC, model + ".tla"), encoding="utf-8").read())
    except Exception:
        nonascii = False
    if ok and nonascii and st.get("distinct", 0) > 8000:
        ok = False; out += "\nTOOL: model %s contains non-ASCII text and has more than 8000 states: TLC's state queue may spill to disk and corrupt it\n" % model
    if not ok:   # what went wrong is between thousands of EDGE lines
        out = "\n".join(l for l in out.splitlines() if not l.startswith('<<"EDGE"'))
    return ok, (cfgs[0] if cfgs else {}), edges, st, out

def edge_class(e):
    """transition class: the command (verb, parameter shape) of the final step plus the verbs on the way"""
    last = e["steps"][-1]
    sig = e.get("sig", {})
    return json.dumps([last["c"], last["cmd"], sorted(sig.get("codes", [])), sorted(sig.get("changes", []))], sort_keys=True)

def select_edges(edges, per_class, seed, extra=0):
    """deterministic tier selection: for every transition class the per_class shortest behaviours,
       plus a seed-chosen sample of the rest"""
    by = {}
    for e in edges: by.setdefault(edge_class(e), []).append(e)
    chosen, rest = [], []
    for k in sorted(by):
        es = sorted(by[k], key=lambda e: (len(e["steps"]), json.dumps(e["steps"], sort_keys=True)))
        chosen += es[:per_class]; rest += es[per_class:]
    rnd = random.Random(seed)
    if extra and rest: chosen += rnd.sample(rest, min(extra, len(rest)))
    return chosen

def write_behaviours(path, model, cfg, edges, only_last=True, bundle=True):
    """one behaviour per transition, recording only its final step; transitions that leave the same state and change nothing
       (queries, refusals: sig.changes empty) are bundled into one behaviour - each is still judged from that same state"""
    n = 0
    with open(path, "w", encoding="utf-8") as f:
        groups = {}
        for e in edges:
            if bundle and only_last and e.get("sig") is not None and not e["sig"].get("changes") and len(e["steps"]) > 1:
                groups.setdefault(json.dumps(e["steps"][:-1], sort_keys=True), []).append(e)
            else:
                b = {"id": "%s-%d" % (model, n), "cfg": cfg, "steps": e["steps"]}
                if only_last: b["record_from"] = len(e["steps"])
                f.write(json.dumps(b, ensure_ascii=False) + "\n"); n += 1
        for key, es in groups.items():
            prefix = es[0]["steps"][:-1]
            for k in range(0, len(es), 40):
                chunk = es[k:k + 40]
                b = {"id": "%s-%d" % (model, n), "cfg": cfg, "steps": prefix + [e["steps"][-1] for e in chunk], "record_from": len(prefix) + 1}
                f.write(json.dumps(b, ensure_ascii=False) + "\n"); n += 1
    return n

def shard_file(path, n):
    lines = [l for l in open(path) if l.strip()]
    n = max(1, min(n, len(lines)))
    outs = []
    for i in range(n):
        p = "%s.shard%d" % (path, i)
        with open(p, "w") as f: f.writelines(lines[i::n])
        outs.append(p)
    return outs

def replay(harness, behaviours, out_prefix, shards=8):
    """run behaviours against the real server, in parallel processes; returns recording files"""
    parts = shard_file(behaviours, shards)
    procs = []
    for i, p in enumerate(parts):
        rec = "%s.rec%d.ndjson" % (out_prefix, i)
        procs.append((subprocess.Popen([harness, "replay", p, rec, "--port-base", str(21000 + 1500 * i)],
                                       stdout=subprocess.PIPE, stderr=subprocess.STDOUT, text=True), rec, p))
    recs = []
    for pr, rec, p in procs:
        out, _ = pr.communicate(timeout=1500)
        if pr.returncode != 0:
            sys.stderr.write("replay failed (%s): %s\n" % (p, out[-2000:]))
            raise SystemExit(2)
        recs.append(rec); os.unlink(p)
    return recs

def validate(recordings, parallel=6):
    """TraceSeq over each recording; returns (mismatches, skipped, pathissues, records, raw_errors)"""
    def one(r):
        ok, mism, st, out = trace_validate(r)
        return r, ok, mism, st, out
    res = []
    with ThreadPoolExecutor(max_workers=parallel) as ex:
        for r in ex.map(one, recordings): res.append(r)
    mism, errors, nrec, skipped, pathiss = [], [], 0, 0, []
    for r, ok, m, st, out in res:
        if not ok: errors.append((r, out[-3000:]))
        for x in m: x["recording"] = r
        mism += m
        nrec += max(0, st.get("distinct", 1) - 1)
        skipped += out.count('<<"SKIPPED"')
        pathiss += parse_tagged(out, "PATHISSUE")
    return mism, skipped, pathiss, nrec, errors
