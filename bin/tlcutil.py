#!/usr/bin/env python3
"""Helpers shared by the checks: running TLC (model checking, trace validation) and parsing its output."""
import json, os, re, subprocess, sys, tempfile, time, shutil

VERIF = os.path.dirname(os.path.dirname(os.path.abspath(__file__)))
SPEC = os.path.join(VERIF, "spec")
WORK = os.path.join(VERIF, "work")
HARNESS_DIR = os.path.join(VERIF, "harness")
HARNESS = os.path.join(HARNESS_DIR, "target", "debug", "harness")

def _unescape_tla_string(s):
    # TLC prints strings with \" and \\ escaped
    out = []; i = 0
    while i < len(s):
        c = s[i]
        if c == '\\' and i + 1 < len(s):
            n = s[i + 1]
            if n == '"': out.append('"'); i += 2; continue
            if n == '\\': out.append('\\'); i += 2; continue
            if n == 'n': out.append('\n'); i += 2; continue
            if n == 't': out.append('\t'); i += 2; continue
        out.append(c); i += 1
    return ''.join(out)

def parse_tagged(output, tag):
    """lines of the form <<"TAG", "json">> (possibly wrapped by TLC's pretty printer)"""
    res = []
    pat = re.compile(r'<<\s*"%s",\s*"(.*)"\s*>>\s*$' % re.escape(tag), re.S)
    buf = None
    for line in output.splitlines():
        if buf is None:
            if line.startswith('<<"%s"' % tag) or line.startswith('<< "%s"' % tag):
                buf = line
            else:
                continue
        else:
            buf += "\n" + line
        if buf.rstrip().endswith('>>'):
            m = pat.match(buf.strip())
            if m:
                txt = _unescape_tla_string(m.group(1).replace("\n   ", "").replace("\n", ""))
                try:
                    res.append(json.loads(txt))
                    buf = None
                    continue
                except Exception:
                    pass
            # maybe not finished yet (a '>>' inside the json); keep accumulating
            if len(buf) > 4_000_000:
                buf = None
    return res

def run_tlc(module, cfg, env=None, workers=1, timeout=600, extra=None, metadir=None, heap="4g", cwd=SPEC, memqueue=None):
    """memqueue: keep TLC's queue of unexplored states in memory (StateDeque).  TLC's default queue spills to disk beyond ~8k queued
    states and its (de)serialisation mangles strings with non-ASCII characters (measured: a TraceLin shard of 237 rounds with the nick
    'zoë' lost 10 accepting states; with 'zoe', or with StateDeque, none).  Every run whose result does not depend on breadth-first
    order - trace validation, vector export - uses the in-memory queue; the bounded protocol models need breadth-first order (their depth
    constraint is on the hidden history) and stay on the default queue: the only one with non-ASCII text (MC_Mask) is far below the
    spill threshold, and model_check() refuses a non-ASCII model that grows beyond it."""
    os.makedirs(WORK, exist_ok=True)
    md = metadir or tempfile.mkdtemp(prefix="tlc_", dir=WORK)
    e = dict(os.environ)
    if memqueue is None: memqueue = not module.startswith("MC_") and module not in ("Keepalive.tla", "LockFlush.tla", "EchoOrder.tla")
    e["JAVA_TOOL_OPTIONS"] = "-Xss1g -Xmx%s -Dfile.encoding=UTF-8 -Dstdout.encoding=UTF-8 -Dsun.stdout.encoding=UTF-8" % heap + \
                             (" -Dtlc2.tool.queue.IStateQueue=StateDeque" if memqueue else "")
    if env: e.update(env)
    cmd = ["timeout", str(timeout), "tlc", "-workers", str(workers), "-metadir", md, "-cleanup",
           "-noGenerateSpecTE", "-config", cfg, module]
    if extra: cmd[2:2] = []; cmd += extra
    t0 = time.time()
    p = subprocess.run(cmd, cwd=cwd, env=e, stdout=subprocess.PIPE, stderr=subprocess.STDOUT, text=True, encoding="utf-8", errors="replace")
    shutil.rmtree(md, ignore_errors=True)
    return p.returncode, p.stdout, time.time() - t0

def tlc_stats(out):
    st = {}
    m = re.search(r'(\d+) states generated, (\d+) distinct states found', out)
    if m: st["generated"] = int(m.group(1)); st["distinct"] = int(m.group(2))
    m = re.search(r'depth of the complete state graph search is (\d+)', out)
    if m: st["depth"] = int(m.group(1))
    return st

def trace_validate(recording, timeout=900):
    """validate one recording with TraceSeq; returns (ok_run, mismatches, stats, raw)"""
    rc, out, dt = run_tlc("TraceSeq.tla", "TraceSeq.cfg", env={"TRACE": os.path.abspath(recording)}, workers=1, timeout=timeout)
    mism = parse_tagged(out, "MISMATCH")
    ok = ("Model checking completed. No error has been found." in out)
    return ok, mism, tlc_stats(out), out

if __name__ == "__main__":
    ok, mism, st, out = trace_validate(sys.argv[1])
    print("tlc ok:", ok, st, "mismatches:", len(mism))
    if not ok: print(out[-3000:])
    from collections import Counter
    cnt = Counter()
    for m in mism:
        cnt[(m["cmd"]["verb"], tuple(m["tags"]))] += 1
    for k, v in cnt.most_common(60): print(v, k)
    n = int(sys.argv[2]) if len(sys.argv) > 2 else 3
    for m in mism[:n]: print(json.dumps(m, ensure_ascii=False))
