#!/usr/bin/env python3
import json, sys, glob
import jsonschema
s = json.load(open('/root/.vp/EVIDENCE.schema.json'))
bad = 0
for f in sorted(glob.glob('/verif/evidence/*.json')):
    try:
        jsonschema.validate(json.load(open(f)), s); print(f, "ok")
    except Exception as e:
        bad += 1; print(f, "INVALID", str(e)[:300])
m = json.load(open('/verif/MANIFEST.json'))
jsonschema.validate(m, json.load(open('/root/.vp/MANIFEST.schema.json'))); print("manifest ok")
sys.exit(1 if bad else 0)
