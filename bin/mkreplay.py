#!/usr/bin/env python3
"""Extract, from a recording, the behaviour prefix that leads to record idx (1-based, as TraceSeq reports it):
a file `harness replay` can re-execute and TraceSeq can re-judge."""
import json, sys

def load(recording):
    return [json.loads(l) for l in open(recording) if l.strip()]

def behaviour_prefix(recs, idx):
    k = idx - 1
    j = k
    while "reset" not in recs[j]: j -= 1
    steps = [{"c": r["c"], "cmd": r["cmd"]} for r in recs[j + 1:k + 1]]
    return {"id": "%s@%d" % (recs[j].get("b", "b"), recs[k].get("i", 0)), "cfg": recs[j]["cfg"], "steps": steps}

if __name__ == "__main__":
    recs = load(sys.argv[1])
    print(json.dumps(behaviour_prefix(recs, int(sys.argv[2])), ensure_ascii=False))
