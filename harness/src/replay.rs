// spec -> code: execute behaviours (exported by TLC from the specification, or written
// by a driver) against the real server and record what the implementation did.
//
// input  : NDJSON, one behaviour per line
//          {"id": .., "cfg": {..}, "steps": [{"c": conn, "cmd": {..}} ..]}
// output : NDJSON recording: per behaviour a reset record {"reset":true,"b":id,"cfg":..,
//          "post":snapshot} followed by one record per step
//          {"b":id,"i":k,"c":conn,"cmd":..,"outs":[..],"post":snapshot,"issue":[..],"panics":[..]}

use crate::core::*;
use serde_json::{json, Value};
use std::io::{BufRead, BufReader, BufWriter, Write};

pub async fn run_behaviour(b: &Value, out: &mut Vec<Value>) {
    let cfg = normalize_cfg(&b["cfg"]);
    let id = b["id"].clone();
    let mut s = Session::start(&cfg).await;
    take_panics();
    // "record_from": k (1-based) records only the steps from the k-th on; the reset record then
    // carries the snapshot taken right before that step
    let empty = vec![];
    let steps = b["steps"].as_array().unwrap_or(&empty);
    let from = b["record_from"].as_u64().unwrap_or(1).max(1) as usize;
    if from == 1 {
        let snap0 = s.snapshot().await;
        out.push(json!({"reset": true, "b": id, "cfg": cfg, "post": snap0}));
    }
    for (i, st) in steps.iter().enumerate() {
        let c = st["c"].as_str().unwrap_or("");
        if i + 1 == from && from > 1 {
            let snap = s.snapshot().await;
            out.push(json!({"reset": true, "b": id, "cfg": cfg, "post": snap}));
        }
        let (outs, issue) = s.step(c, &st["cmd"]).await;
        let panics = take_panics();
        let iss: Vec<String> = issue.into_iter().collect();
        let mut blocked = false;
        if i + 1 >= from {
            let post = s.snapshot().await;
            blocked = post["blocked"].as_bool().unwrap_or(false);
            let mut iss = iss;
            if blocked {
                iss.push("watchdog: the server state stayed locked for 8 s (a handler is holding it)".to_string());
            }
            out.push(json!({"b": id, "i": i + 1, "c": c, "cmd": st["cmd"], "outs": outs,
                            "post": post, "issue": iss, "panics": panics}));
        } else if !iss.is_empty() || !panics.is_empty() {
            // something went wrong on the way to the step of interest
            out.push(json!({"pathissue": true, "b": id, "i": i + 1, "c": c, "cmd": st["cmd"],
                            "issue": iss, "panics": panics}));
        }
        if blocked {
            // nothing further can be learnt from this server instance
            break;
        }
        s.retire_ended();
    }
    let _ = tokio::time::timeout(std::time::Duration::from_secs(5), s.stop()).await;
}

pub fn main(args: &[String]) -> i32 {
    if args.len() < 2 {
        eprintln!("replay <behaviours.ndjson> <out.ndjson> [--workers N] [--port-base P]");
        return 2;
    }
    let workers: usize = arg_val(args, "--workers").and_then(|s| s.parse().ok()).unwrap_or(2);
    let base: u16 = arg_val(args, "--port-base").and_then(|s| s.parse().ok()).unwrap_or(21000);
    set_port_base(base);
    let f = match std::fs::File::open(&args[0]) {
        Ok(f) => f,
        Err(e) => {
            eprintln!("cannot open {}: {}", args[0], e);
            return 2;
        }
    };
    let mut w = BufWriter::new(std::fs::File::create(&args[1]).expect("create output"));
    let rt = runtime(workers);
    let mut n = 0;
    for line in BufReader::new(f).lines() {
        let line = line.unwrap();
        if line.trim().is_empty() {
            continue;
        }
        let b: Value = match serde_json::from_str(&line) {
            Ok(v) => v,
            Err(e) => {
                eprintln!("bad behaviour line: {}", e);
                return 2;
            }
        };
        let mut recs = vec![];
        rt.block_on(run_behaviour(&b, &mut recs));
        for r in recs {
            writeln!(w, "{}", r).unwrap();
        }
        n += 1;
    }
    w.flush().unwrap();
    eprintln!("replayed {} behaviours", n);
    0
}
