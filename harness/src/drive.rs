pub fn main(_args: &[String]) -> i32 { eprintln!("drive: not built yet"); 2 }
