// code -> spec: seeded random sequential histories, recorded for trace validation.
//
// The generator knows the protocol only as a vocabulary (verbs, parameter pools); it looks
// at the latest snapshot merely to bias its choices towards names that exist.  What the
// server should have answered is decided by the specification, not here.

use crate::core::*;
use crate::replay::run_behaviour;
use rand::rngs::StdRng;
use rand::seq::SliceRandom;
use rand::{Rng, SeedableRng};
use serde_json::{json, Value};
use std::io::{BufWriter, Write};

pub const CONNS: [&str; 6] = [
    "127.0.0.1", "127.0.0.2", "127.0.0.3", "127.0.0.4", "127.0.0.5", "127.0.0.6",
];
pub const NICKS: [&str; 9] = ["alice", "bob", "carol", "dave", "eve", "god", "zoë", "x", "Alice"];
pub const CHANS: [&str; 5] = ["#one", "&two", "#pre", "#sec", "#four"];
pub const KEYS: [&str; 3] = ["k1", "k2", "sesame"];
pub const TEXTS: [&str; 9] = [
    ":-)",
    "::",
    "hello",
    "hello: world",
    "",
    "za\u{17c}\u{f3}\u{142}\u{107} g\u{119}\u{15b}l\u{105}",
    ":leading colon",
    "a  b   c",
    "x",
];

pub fn cmd(verb: &str, p: Vec<Vec<String>>) -> Value {
    json!({"verb": verb, "p": p})
}
fn s(x: &str) -> String {
    x.to_string()
}

pub fn profile_cfg(profile: &str) -> Value {
    match profile {
        "plain" => json!({}),
        "pw" => json!({"password": ["srvpass"], "max_joins": [2]}),
        "modes" => json!({"default_modes": ["i", "w"], "max_joins": [3],
            "operators": [{"name": "god", "pass": "godpass"}]}),
        "dflto" => json!({"default_modes": ["O"],
            "operators": [{"name": "god", "pass": "godpass"}]}),
        _ => json!({
            "max_joins": [3], "max_connections": [5],
            "motd": "Message of the day", "network": "VerifNet", "name": "irc.verif.test",
            "admin_info2": ["second line"], "admin_email": ["admin@verif.test"],
            "operators": [{"name": "god", "pass": "godpass"},
                          {"name": "root", "pass": "rootpass", "mask": ["*!*@127.0.0.2"]}],
            "users": [{"name": "reg1", "nick": "reg1", "pass": ["userpass"]},
                      {"name": "reg2", "nick": "reg2"},
                      {"name": "reg3", "nick": "reg3", "mask": ["*!*@127.0.0.3"]}],
            "channels": [{"name": "#pre", "topic": ["Preconfigured: topic"], "flags": ["n", "t"],
                          "o": ["alice"], "v": ["bob"], "q": ["carol"]},
                         {"name": "#sec", "flags": ["s", "i"], "key": ["sesame"], "limit": [3],
                          "ban": ["eve!*@*"], "exc": ["eve!*@127.0.0.5"], "invex": ["*!*@127.0.0.6"],
                          "h": ["dave"], "a": ["bob"]}]
        }),
    }
}

pub struct Gen {
    pub rng: StdRng,
    pub profile: String,
}

impl Gen {
    fn pick<'a>(&mut self, v: &'a [&'a str]) -> String {
        v.choose(&mut self.rng).unwrap().to_string()
    }
    fn nick_pool(&mut self, snap: &Value) -> String {
        // an existing nick most of the time
        let ex: Vec<String> = snap["users"].as_object().map(|o| o.keys().cloned().collect()).unwrap_or_default();
        if !ex.is_empty() && self.rng.gen_bool(0.75) {
            ex.choose(&mut self.rng).unwrap().clone()
        } else {
            self.pick(&NICKS)
        }
    }
    // a channel the given user is on (most of the time), else any
    fn chan_for(&mut self, snap: &Value, me: &str) -> String {
        let mine: Vec<String> = snap["users"][me]["chans"].as_array().map(|a| a.iter().filter_map(|x| x.as_str().map(|s| s.to_string())).collect()).unwrap_or_default();
        if !mine.is_empty() && self.rng.gen_bool(0.65) {
            mine.choose(&mut self.rng).unwrap().clone()
        } else {
            self.chan_pool(snap)
        }
    }
    // a member of that channel (most of the time), else any nick
    fn member_of(&mut self, snap: &Value, ch: &str) -> String {
        let ms: Vec<String> = snap["chans"][ch]["members"].as_object().map(|o| o.keys().cloned().collect()).unwrap_or_default();
        if !ms.is_empty() && self.rng.gen_bool(0.75) {
            ms.choose(&mut self.rng).unwrap().clone()
        } else {
            self.nick_pool(snap)
        }
    }
    fn free_nick(&mut self, snap: &Value) -> String {
        let free: Vec<&str> = NICKS.iter().filter(|n| snap["users"][**n].is_null()).cloned().collect();
        if !free.is_empty() && self.rng.gen_bool(0.8) {
            free.choose(&mut self.rng).unwrap().to_string()
        } else {
            self.pick(&NICKS)
        }
    }
    fn chan_pool(&mut self, snap: &Value) -> String {
        let ex: Vec<String> = snap["chans"].as_object().map(|o| o.keys().cloned().collect()).unwrap_or_default();
        if !ex.is_empty() && self.rng.gen_bool(0.7) {
            ex.choose(&mut self.rng).unwrap().clone()
        } else {
            self.pick(&CHANS)
        }
    }
    fn mask(&mut self, snap: &Value) -> String {
        let n = self.nick_pool(snap);
        let k = self.rng.gen_range(1..7);
        match self.rng.gen_range(0..9) {
            0 => format!("{}!*@*", n),
            1 => n,
            2 => format!("*!*@127.0.0.{}", k),
            3 => format!("*!~u{}@*", k),
            4 => format!("{}@127.0.0.{}", n, k),
            5 => format!("{}!~u{}", n, k),
            6 => "*".to_string(),
            7 => format!("?{}*", &n[n.chars().next().map(|c| c.len_utf8()).unwrap_or(0)..]),
            _ => format!("*{}", &n[..n.char_indices().nth(1).map(|x| x.0).unwrap_or(n.len())]),
        }
    }
    fn text(&mut self) -> String {
        self.pick(&TEXTS)
    }
    fn list<F: FnMut(&mut Gen) -> String>(&mut self, mut f: F) -> Vec<String> {
        let n = match self.rng.gen_range(0..10) {
            0..=6 => 1,
            7..=8 => 2,
            _ => 3,
        };
        (0..n).map(|_| f(self)).collect()
    }

    pub fn pre_cmd(&mut self, snap: &Value, c: &str) -> Value {
        self.prereg(snap, c)
    }
    pub fn reg_cmd(&mut self, snap: &Value, c: &str) -> Value {
        self.registered_cmd(snap, c)
    }
    fn prereg(&mut self, snap: &Value, c: &str) -> Value {
        let k = &snap["conns"][c];
        let has_nick = k["nick"].as_array().map(|a| !a.is_empty()).unwrap_or(false);
        let has_user = k["uname"].as_array().map(|a| !a.is_empty()).unwrap_or(false);
        let idx = CONNS.iter().position(|x| *x == c).unwrap_or(0) + 1;
        let has_pass = k["pass"].as_array().map(|a| !a.is_empty()).unwrap_or(false);
        let needs_pass = self.profile == "pw" || self.profile == "full";
        let r = self.rng.gen_range(0..100);
        if needs_pass && !has_pass && r < 55 {
            let pw: String = if self.rng.gen_bool(0.85) { s("srvpass") } else { self.pick(&["userpass", "wrong"]) };
            cmd("PASS", vec![vec![pw]])
        } else if r < 45 && !has_nick || r < 6 {
            cmd("NICK", vec![vec![self.free_nick(snap)]])
        } else if r < 80 && !has_user || r < 10 {
            let un = if self.profile == "full" && self.rng.gen_bool(0.35) {
                self.pick(&["reg1", "reg2", "reg3"])
            } else {
                format!("u{}", idx)
            };
            cmd("USER", vec![vec![un], vec![format!("Real {}", idx)]])
        } else if r < 70 {
            let pw = self.pick(&["srvpass", "userpass", "wrong", "godpass"]);
            cmd("PASS", vec![vec![pw]])
        } else if r < 80 {
            match self.rng.gen_range(0..5) {
                0 => cmd("CAP", vec![vec![s("LS")], vec![s("302")]]),
                1 => cmd("CAP", vec![vec![s("LS")]]),
                2 => cmd("CAP", vec![vec![s("REQ")], vec![s("multi-prefix")]]),
                3 => cmd("CAP", vec![vec![s("LIST")]]),
                _ => cmd("CAP", vec![vec![s("END")]]),
            }
        } else if r < 92 {
            self.registered_cmd(snap, c)
        } else if r < 96 {
            cmd("QUIT", vec![])
        } else {
            cmd(self.pick(&["!close", "!rst"]).as_str(), vec![])
        }
    }

    fn mode_groups(&mut self, snap: &Value, ch: &str) -> Vec<Vec<String>> {
        let ngroups = if self.rng.gen_bool(0.8) { 1 } else { 2 };
        let mut out = vec![];
        for _ in 0..ngroups {
            let nl = self.rng.gen_range(1..4);
            let mut ms = String::new();
            let mut args = vec![];
            let mut sign = self.rng.gen_bool(0.65);
            ms.push(if sign { '+' } else { '-' });
            for j in 0..nl {
                if j > 0 && self.rng.gen_bool(0.25) {
                    sign = !sign;
                    ms.push(if sign { '+' } else { '-' });
                }
                let l = *b"qaohvbeIklimtns".choose(&mut self.rng).unwrap() as char;
                ms.push(l);
                match l {
                    'q' | 'a' | 'o' | 'h' | 'v' => args.push(self.member_of(snap, ch)),
                    'b' | 'e' | 'I' => {
                        if self.rng.gen_bool(0.8) {
                            let m = self.mask(snap);
                            args.push(m)
                        }
                    }
                    'k' => {
                        if sign {
                            args.push(self.pick(&KEYS))
                        }
                    }
                    'l' => {
                        if sign {
                            args.push(self.rng.gen_range(0..4).to_string())
                        }
                    }
                    _ => {}
                }
            }
            let mut g = vec![ms];
            g.extend(args);
            out.push(g);
        }
        out
    }

    fn registered_cmd(&mut self, snap: &Value, c: &str) -> Value {
        let me = snap["conns"][c]["nick"][0].as_str().unwrap_or("nobody").to_string();
        let r = self.rng.gen_range(0..1000);
        match r {
            0..=119 => {
                let chs = self.list(|g| g.chan_pool(snap));
                if self.rng.gen_bool(0.3) {
                    let keys = chs.iter().map(|_| self.pick(&KEYS)).collect();
                    cmd("JOIN", vec![chs, keys])
                } else {
                    cmd("JOIN", vec![chs])
                }
            }
            120..=169 => {
                let mec = me.clone();
                let chs = self.list(|g| g.chan_for(snap, &mec));
                if self.rng.gen_bool(0.4) {
                    cmd("PART", vec![chs, vec![self.text()]])
                } else {
                    cmd("PART", vec![chs])
                }
            }
            170..=289 => {
                let verb = if self.rng.gen_bool(0.7) { "PRIVMSG" } else { "NOTICE" };
                let tg = self.list(|g| {
                    let ch = g.chan_pool(snap);
                    match g.rng.gen_range(0..10) {
                        0..=3 => ch,
                        4 => format!("@{}", ch),
                        5 => format!("+{}", ch),
                        6 => format!("~@{}", ch),
                        7 => format!("%&@{}", ch),
                        _ => g.nick_pool(snap),
                    }
                });
                cmd(verb, vec![tg, vec![self.text()]])
            }
            290..=409 => {
                let ch = self.chan_for(snap, &me);
                let mut p = vec![vec![ch.clone()]];
                if self.rng.gen_bool(0.9) {
                    p.extend(self.mode_groups(snap, &ch));
                }
                cmd("MODE", p)
            }
            410..=449 => {
                let target = if self.rng.gen_bool(0.8) { me.clone() } else { self.nick_pool(snap) };
                let mut p = vec![vec![target]];
                if self.rng.gen_bool(0.9) {
                    let mut ms = String::new();
                    ms.push(if self.rng.gen_bool(0.6) { '+' } else { '-' });
                    for _ in 0..self.rng.gen_range(1..3) {
                        ms.push(*b"iorwO".choose(&mut self.rng).unwrap() as char);
                        if self.rng.gen_bool(0.2) {
                            ms.push(if self.rng.gen_bool(0.5) { '+' } else { '-' });
                        }
                    }
                    p.push(vec![ms]);
                }
                cmd("MODE", p)
            }
            450..=499 => {
                let ch = self.chan_for(snap, &me);
                let chc = ch.clone();
                let us = self.list(|g| g.member_of(snap, &chc));
                if self.rng.gen_bool(0.5) {
                    cmd("KICK", vec![vec![ch], us, vec![self.text()]])
                } else {
                    cmd("KICK", vec![vec![ch], us])
                }
            }
            500..=539 => {
                let ch = self.chan_for(snap, &me);
                if self.rng.gen_bool(0.6) {
                    cmd("TOPIC", vec![vec![ch], vec![self.text()]])
                } else {
                    cmd("TOPIC", vec![vec![ch]])
                }
            }
            540..=579 => cmd("INVITE", vec![vec![self.nick_pool(snap)], vec![self.chan_for(snap, &me)]]),
            580..=619 => {
                if self.rng.gen_bool(0.8) {
                    cmd("NAMES", vec![self.list(|g| g.chan_pool(snap))])
                } else {
                    cmd("NAMES", vec![])
                }
            }
            620..=649 => {
                if self.rng.gen_bool(0.6) {
                    cmd("LIST", vec![self.list(|g| g.chan_pool(snap))])
                } else {
                    cmd("LIST", vec![])
                }
            }
            650..=689 => {
                let m = match self.rng.gen_range(0..3) {
                    0 => self.chan_pool(snap),
                    1 => self.nick_pool(snap),
                    _ => self.mask(snap),
                };
                cmd("WHO", vec![vec![m]])
            }
            690..=729 => {
                let ms = self.list(|g| {
                    if g.rng.gen_bool(0.7) {
                        g.nick_pool(snap)
                    } else {
                        let n = g.nick_pool(snap);
                        format!("{}*", n.chars().next().unwrap_or('a'))
                    }
                });
                cmd("WHOIS", vec![ms])
            }
            730..=749 => {
                if self.rng.gen_bool(0.7) {
                    cmd("WHOWAS", vec![vec![self.pick(&NICKS)]])
                } else {
                    cmd("WHOWAS", vec![vec![self.pick(&NICKS)], vec![self.rng.gen_range(0..3).to_string()]])
                }
            }
            750..=799 => cmd("NICK", vec![vec![self.free_nick(snap)]]),
            800..=829 => {
                let (n, p) = match self.rng.gen_range(0..4) {
                    0 => ("god", "godpass"),
                    1 => ("god", "wrong"),
                    2 => ("root", "rootpass"),
                    _ => ("nobody", "godpass"),
                };
                cmd("OPER", vec![vec![s(n)], vec![s(p)]])
            }
            830..=849 => {
                if self.rng.gen_bool(0.6) {
                    cmd("AWAY", vec![vec![self.text()]])
                } else {
                    cmd("AWAY", vec![])
                }
            }
            850..=869 => cmd("LUSERS", vec![]),
            870..=889 => cmd("ISON", vec![self.list(|g| g.nick_pool(snap))]),
            890..=909 => cmd("USERHOST", vec![self.list(|g| g.nick_pool(snap))]),
            910..=924 => cmd("WALLOPS", vec![vec![self.text()]]),
            925..=939 => cmd("KILL", vec![vec![self.nick_pool(snap)], vec![self.text()]]),
            940..=949 => cmd("PING", vec![vec![format!("tok{}", self.rng.gen_range(0..100))]]),
            950..=954 => cmd("PONG", vec![vec![s("x")]]),
            955..=969 => {
                let v = self.pick(&["MOTD", "VERSION", "ADMIN", "INFO", "TIME", "LINKS", "HELP", "REHASH", "RESTART"]);
                cmd(&v, vec![])
            }
            970..=974 => cmd("STATS", vec![vec![self.pick(&["u", "l", "o"])]]),
            975..=979 => cmd("HELP", vec![vec![self.pick(&["COMMANDS", "NOPE"])]]),
            980..=984 => cmd("PASS", vec![vec![s("again")]]),
            985..=988 => cmd("USER", vec![vec![s("again")], vec![s("Again")]]),
            989..=992 => cmd("QUIT", vec![]),
            993..=996 => cmd(self.pick(&["!close", "!rst"]).as_str(), vec![]),
            997 => cmd("SQUIT", vec![vec![s("other.server")], vec![s("bye")]]),
            998 => cmd("CONNECT", vec![vec![s("other.server")]]),
            _ => cmd("JOIN", vec![]),
        }
    }

    pub fn next(&mut self, snap: &Value, nconn: usize) -> (String, Value) {
        let c = CONNS[self.rng.gen_range(0..nconn)].to_string();
        let k = &snap["conns"][&c];
        if k.is_null() {
            return (c, cmd("!open", vec![]));
        }
        let authed = k["authed"].as_bool().unwrap_or(false);
        if !authed {
            let v = self.prereg(snap, &c);
            (c, v)
        } else {
            let v = self.registered_cmd(snap, &c);
            (c, v)
        }
    }
}

pub async fn run_episode(id: &str, cfg: &Value, gen: &mut Gen, steps: usize, nconn: usize, out: &mut Vec<Value>) {
    let cfgn = normalize_cfg(cfg);
    let mut s = Session::start(&cfgn).await;
    take_panics();
    let mut snap = s.snapshot().await;
    out.push(json!({"reset": true, "b": id, "cfg": cfgn, "post": snap}));
    for i in 0..steps {
        let (c, cm) = gen.next(&snap, nconn);
        let (outs, issue) = s.step(&c, &cm).await;
        let post = s.snapshot().await;
        s.retire_ended();
        let panics = take_panics();
        let mut iss: Vec<String> = issue.into_iter().collect();
        if post["blocked"].as_bool().unwrap_or(false) {
            iss.push("watchdog: the server state stayed locked for 8 s (a handler is holding it)".to_string());
        }
        let dead = post["dead"].as_array().map(|a| !a.is_empty()).unwrap_or(false);
        let stop = !iss.is_empty() || dead || !panics.is_empty() || !post["up"].as_bool().unwrap_or(true);
        out.push(json!({"b": id, "i": i + 1, "c": c, "cmd": cm, "outs": outs,
                        "post": post, "issue": iss, "panics": panics}));
        snap = post;
        if stop {
            break;
        }
    }
    let _ = tokio::time::timeout(std::time::Duration::from_secs(5), s.stop()).await;
}

pub fn main(args: &[String]) -> i32 {
    if args.is_empty() {
        eprintln!("drive <out.ndjson> --seed S --steps N [--episodes E] [--profile P] [--conns K]");
        return 2;
    }
    let seed: u64 = arg_val(args, "--seed").and_then(|s| s.parse().ok()).unwrap_or(1);
    let steps: usize = arg_val(args, "--steps").and_then(|s| s.parse().ok()).unwrap_or(200);
    let episodes: usize = arg_val(args, "--episodes").and_then(|s| s.parse().ok()).unwrap_or(1);
    let nconn: usize = arg_val(args, "--conns").and_then(|s| s.parse().ok()).unwrap_or(5);
    let base: u16 = arg_val(args, "--port-base").and_then(|s| s.parse().ok()).unwrap_or(23000);
    let profile_arg = arg_val(args, "--profile").unwrap_or_else(|| "mix".to_string());
    set_port_base(base);
    let mut w = BufWriter::new(std::fs::File::create(&args[0]).expect("create output"));
    let rt = runtime(2);
    let profiles = ["plain", "pw", "modes", "full", "dflto", "full"];
    for e in 0..episodes {
        let profile = if profile_arg == "mix" {
            profiles[(seed as usize + e) % profiles.len()].to_string()
        } else {
            profile_arg.clone()
        };
        let mut gen = Gen {
            rng: StdRng::seed_from_u64(seed.wrapping_mul(1000003).wrapping_add(e as u64)),
            profile: profile.clone(),
        };
        let cfg = profile_cfg(&profile);
        let mut recs = vec![];
        let id = format!("drive-{}-{}-{}", seed, e, profile);
        rt.block_on(run_episode(&id, &cfg, &mut gen, steps, nconn.min(6), &mut recs));
        for r in recs {
            writeln!(w, "{}", r).unwrap();
        }
    }
    w.flush().unwrap();
    0
}
