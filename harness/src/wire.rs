// Abstract command  ->  wire line.
//
// An abstract command is {"verb": V, "p": [[..],[..],..]}: the verb and its parameter
// groups as the specification sees them.  The serialiser below is the harness's own; the
// code under test is never used to produce or to interpret wire text.

use serde_json::Value;

pub fn groups(cmd: &Value) -> Vec<Vec<String>> {
    cmd["p"]
        .as_array()
        .map(|a| {
            a.iter()
                .map(|g| {
                    g.as_array()
                        .map(|x| x.iter().map(|s| s.as_str().unwrap_or("").to_string()).collect())
                        .unwrap_or_default()
                })
                .collect()
        })
        .unwrap_or_default()
}

pub fn verb(cmd: &Value) -> String {
    cmd["verb"].as_str().unwrap_or("").to_string()
}

fn g(p: &[Vec<String>], i: usize) -> Option<&Vec<String>> {
    p.get(i)
}

fn first(p: &[Vec<String>], i: usize) -> Option<&String> {
    p.get(i).and_then(|v| v.get(0))
}

// the serialisation: middle parameters joined by blanks, the free-text parameter (if the
// verb has one) always sent as ":"-introduced trailing parameter
pub fn to_line(cmd: &Value) -> String {
    let v = verb(cmd);
    let p = groups(cmd);
    let mut out = v.clone();
    let mid = |out: &mut String, s: &str| {
        out.push(' ');
        out.push_str(s);
    };
    let trail = |out: &mut String, s: &str| {
        out.push_str(" :");
        out.push_str(s);
    };
    match v.as_str() {
        "RAW" => return first(&p, 0).cloned().unwrap_or_default(),
        "JOIN" | "NAMES" | "LIST" | "WHOIS" => {
            for grp in p.iter() {
                mid(&mut out, &grp.join(","));
            }
        }
        "PART" => {
            if let Some(c) = g(&p, 0) {
                mid(&mut out, &c.join(","));
            }
            if let Some(r) = first(&p, 1) {
                trail(&mut out, r);
            }
        }
        "PRIVMSG" | "NOTICE" => {
            if let Some(c) = g(&p, 0) {
                mid(&mut out, &c.join(","));
            }
            if let Some(r) = first(&p, 1) {
                trail(&mut out, r);
            }
        }
        "KICK" => {
            if let Some(c) = first(&p, 0) {
                mid(&mut out, c);
            }
            if let Some(u) = g(&p, 1) {
                mid(&mut out, &u.join(","));
            }
            if let Some(r) = first(&p, 2) {
                trail(&mut out, r);
            }
        }
        "TOPIC" => {
            if let Some(c) = first(&p, 0) {
                mid(&mut out, c);
            }
            if let Some(r) = first(&p, 1) {
                trail(&mut out, r);
            }
        }
        "USER" => {
            if let Some(u) = first(&p, 0) {
                mid(&mut out, u);
            }
            mid(&mut out, "0");
            mid(&mut out, "*");
            if let Some(r) = first(&p, 1) {
                trail(&mut out, r);
            }
        }
        "KILL" | "SQUIT" => {
            if let Some(u) = first(&p, 0) {
                mid(&mut out, u);
            }
            if let Some(r) = first(&p, 1) {
                trail(&mut out, r);
            }
        }
        "AWAY" | "WALLOPS" | "DIE" => {
            if let Some(r) = first(&p, 0) {
                trail(&mut out, r);
            }
        }
        "CAP" => {
            if let Some(s) = first(&p, 0) {
                mid(&mut out, s);
            }
            if let Some(a) = g(&p, 1) {
                if v == "CAP" && first(&p, 0).map(|s| s.as_str()) == Some("REQ") {
                    trail(&mut out, &a.join(" "));
                } else {
                    for x in a {
                        mid(&mut out, x);
                    }
                }
            }
        }
        // MODE target {modestring args..}*, USERHOST/ISON nick.., everything else: all
        // parameters as middle parameters
        _ => {
            let flat: Vec<&String> = p.iter().flat_map(|g| g.iter()).collect();
            let n = flat.len();
            for (i, x) in flat.iter().enumerate() {
                // a last parameter that could not travel as a middle one (blanks, leading colon, empty) goes as trailing
                if i + 1 == n && (x.contains(' ') || x.starts_with(':') || x.is_empty()) {
                    trail(&mut out, x);
                } else {
                    mid(&mut out, x);
                }
            }
        }
    }
    out
}

// ---- the harness's own IRC tokenizer (RFC 1459 / modern grammar) -------------------

#[derive(Debug, Clone, PartialEq)]
pub struct Tok {
    pub prefix: Option<String>,
    pub command: String,
    pub params: Vec<String>,
    pub has_trailing: bool,
}

pub fn tokenize(line: &str) -> Option<Tok> {
    let mut rest = line.trim_start_matches(' ');
    if rest.is_empty() {
        return None;
    }
    let mut prefix = None;
    if let Some(stripped) = rest.strip_prefix(':') {
        let end = stripped.find(' ').unwrap_or(stripped.len());
        prefix = Some(stripped[..end].to_string());
        rest = stripped[end..].trim_start_matches(' ');
    }
    let end = rest.find(' ').unwrap_or(rest.len());
    let command = rest[..end].to_string();
    if command.is_empty() {
        return None;
    }
    rest = &rest[end..];
    let mut params = vec![];
    let mut has_trailing = false;
    loop {
        let r = rest.trim_start_matches(' ');
        if r.is_empty() {
            break;
        }
        // a parameter starting with ':' after at least one blank is the trailing one
        if let Some(t) = r.strip_prefix(':') {
            params.push(t.to_string());
            has_trailing = true;
            break;
        }
        let end = r.find(' ').unwrap_or(r.len());
        params.push(r[..end].to_string());
        rest = &r[end..];
    }
    Some(Tok {
        prefix,
        command,
        params,
        has_trailing,
    })
}
