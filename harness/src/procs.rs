pub fn main(_args: &[String]) -> i32 { eprintln!("procs: not built yet"); 2 }
