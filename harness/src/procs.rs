// C20: start-up validation with the REAL binary built from /repo (no hooks): each case is a
// configuration file plus command-line arguments; the server must either exit with an
// error without ever serving, or serve with the effective settings.
//
// in : {"id":..,"toml":"...","args":[..],"port":N,"tls":bool,"probe":{"pass":[..],"nick":..,"user":..}}
// out: {"id":..,"exit":[code]|[],"served":bool,"welcome":[abstract msgs],"stderr":"..."}

use crate::absmsg::abstract_line;
use crate::core::*;
use serde_json::{json, Value};
use std::io::{BufRead, BufReader, BufWriter, Read, Write};
use std::process::{Command, Stdio};
use std::time::{Duration, Instant};
use tokio::io::{AsyncBufReadExt, AsyncWriteExt};
use tokio::net::TcpStream;

async fn probe(port: u16, tls: bool, p: &Value, server_name: &str) -> (bool, Vec<Value>) {
    let stream = match TcpStream::connect(("127.0.0.1", port)).await {
        Ok(s) => s,
        Err(_) => return (false, vec![]),
    };
    stream.set_nodelay(true).ok();
    let boxed: Box<dyn Duplex> = if tls {
        match tls_connect(stream).await {
            Ok(t) => Box::new(t),
            Err(_) => return (false, vec![]),
        }
    } else {
        Box::new(stream)
    };
    let (rd, mut wr) = tokio::io::split(boxed);
    let mut rd = tokio::io::BufReader::new(rd);
    let mut script = String::new();
    if let Some(pw) = p["pass"].as_array().and_then(|a| a.get(0)).and_then(|x| x.as_str()) {
        script.push_str(&format!("PASS {}\r\n", pw));
    }
    script.push_str(&format!(
        "NICK {}\r\nUSER {} 0 * :Probe\r\n",
        p["nick"].as_str().unwrap_or("probe"),
        p["user"].as_str().unwrap_or("pu")
    ));
    for extra in p["extra"].as_array().cloned().unwrap_or_default() {
        script.push_str(extra.as_str().unwrap_or(""));
        script.push_str("\r\n");
    }
    script.push_str("PING done\r\n");
    if wr.write_all(script.as_bytes()).await.is_err() {
        return (true, vec![]);
    }
    let mut out = vec![];
    let deadline = Instant::now() + Duration::from_secs(4);
    let mut line = String::new();
    loop {
        line.clear();
        let left = deadline.saturating_duration_since(Instant::now());
        if left.is_zero() {
            break;
        }
        match tokio::time::timeout(left, rd.read_line(&mut line)).await {
            Ok(Ok(n)) if n > 0 => {
                let msgs = abstract_line("probe", server_name, line.trim_end());
                let done = msgs.iter().any(|m| m["c"] == "PONG" || m["c"] == "464" || m["c"] == "451" && false);
                out.extend(msgs);
                if done {
                    break;
                }
            }
            _ => {
                out.push(json!({"to": "probe", "k": "s", "c": "EOF", "cl": "", "src": "", "a": []}));
                break;
            }
        }
    }
    (true, out)
}

fn run_case(rt: &tokio::runtime::Runtime, bin: &str, dir: &str, t: &Value) -> Value {
    let id = t["id"].as_str().unwrap_or("case").to_string();
    let cfg_path = format!("{}/{}.toml", dir, id);
    std::fs::write(&cfg_path, t["toml"].as_str().unwrap_or("")).ok();
    let port = t["port"].as_u64().unwrap_or(29000) as u16;
    let mut cmd = Command::new(bin);
    cmd.arg("-c").arg(&cfg_path);
    for a in t["args"].as_array().cloned().unwrap_or_default() {
        cmd.arg(a.as_str().unwrap_or(""));
    }
    cmd.current_dir(dir).stdin(Stdio::null()).stdout(Stdio::piped()).stderr(Stdio::piped());
    cmd.env("RUST_LOG", "error");
    let mut child = match cmd.spawn() {
        Ok(c) => c,
        Err(e) => return json!({"id": id, "error": e.to_string()}),
    };
    // wait until it either exits or accepts connections
    let start = Instant::now();
    let mut exit: Option<i32> = None;
    let mut served = false;
    let mut welcome = vec![];
    let server_name = t["server_name"].as_str().unwrap_or("irc.irc").to_string();
    loop {
        if let Ok(Some(st)) = child.try_wait() {
            exit = Some(st.code().unwrap_or(-1));
            break;
        }
        if std::net::TcpStream::connect_timeout(&format!("127.0.0.1:{}", port).parse().unwrap(), Duration::from_millis(50)).is_ok() {
            let (s, w) = rt.block_on(probe(port, t["tls"].as_bool().unwrap_or(false), &t["probe"], &server_name));
            served = s;
            welcome = w;
            break;
        }
        if start.elapsed() > Duration::from_millis(2500) {
            break;
        }
        std::thread::sleep(Duration::from_millis(15));
    }
    let mut stderr = String::new();
    if exit.is_none() {
        let _ = child.kill();
        let _ = child.wait();
    }
    if let Some(mut e) = child.stderr.take() {
        let mut buf = vec![];
        let _ = e.read_to_end(&mut buf);
        stderr = String::from_utf8_lossy(&buf).chars().take(300).collect();
    }
    let mut stdout = String::new();
    if let Some(mut o) = child.stdout.take() {
        let mut buf = vec![];
        let _ = o.read_to_end(&mut buf);
        stdout = String::from_utf8_lossy(&buf).chars().take(300).collect();
    }
    json!({"id": id, "exit": exit.map(|c| vec![c]).unwrap_or_default(), "served": served, "welcome": welcome,
           "stderr": stderr, "stdout": stdout})
}

pub fn main(args: &[String]) -> i32 {
    if args.len() < 2 {
        eprintln!("procs <in.ndjson> <out.ndjson> --bin <server binary> [--dir scratch]");
        return 2;
    }
    let bin = arg_val(args, "--bin").unwrap_or_else(|| "/repo/target/debug/simple-irc-server".to_string());
    let dir = arg_val(args, "--dir").unwrap_or_else(|| "/verif/work/procs".to_string());
    std::fs::create_dir_all(&dir).ok();
    let f = std::fs::File::open(&args[0]).expect("open");
    let mut w = BufWriter::new(std::fs::File::create(&args[1]).expect("create"));
    let rt = runtime(2);
    let cases: Vec<Value> = BufReader::new(f)
        .lines()
        .filter_map(|l| l.ok())
        .filter(|l| !l.trim().is_empty())
        .map(|l| serde_json::from_str(&l).expect("json"))
        .collect();
    for t in cases {
        let r = if t["genhash"].is_string() {
            // the binary's own '-g -P <password>'
            let o = Command::new(&bin).arg("-g").arg("-P").arg(t["genhash"].as_str().unwrap()).output();
            match o {
                Ok(o) => json!({"id": t["id"], "hash_stdout": String::from_utf8_lossy(&o.stdout), "exit": [o.status.code().unwrap_or(-1)]}),
                Err(e) => json!({"id": t["id"], "error": e.to_string()}),
            }
        } else {
            run_case(&rt, &bin, &dir, &t)
        };
        writeln!(w, "{}", r).unwrap();
    }
    w.flush().unwrap();
    0
}
