// code -> spec under concurrency (C18, C02): rounds of simultaneously fired, pipelined
// scripts from many connections on a multi-thread runtime, with the seeded race points of
// the hooks armed.  Each round is recorded (pre snapshot, scripts, what every socket
// received in order, post snapshot); TraceLin.tla searches for a linearization.

use crate::core::*;
use crate::drive::{cmd, profile_cfg, Gen, CONNS, NICKS};
use crate::state::verif;
use crate::wire;
use rand::rngs::StdRng;
use rand::seq::SliceRandom;
use rand::{Rng, SeedableRng};
use serde_json::{json, Map, Value};
use std::collections::BTreeMap;
use std::io::{BufWriter, Write};
use std::sync::atomic::Ordering;
use std::time::Duration;
use tokio::io::AsyncWriteExt;

fn s(x: &str) -> String {
    x.to_string()
}

fn scenario_scripts(kind: usize, g: &mut Gen, snap: &Value, conns: &[String]) -> BTreeMap<String, Vec<Value>> {
    let mut m: BTreeMap<String, Vec<Value>> = BTreeMap::new();
    let authed: Vec<String> = conns
        .iter()
        .filter(|c| snap["conns"][c.as_str()]["authed"].as_bool().unwrap_or(false))
        .cloned()
        .collect();
    let unauth: Vec<String> = conns
        .iter()
        .filter(|c| !snap["conns"][c.as_str()].is_null() && !snap["conns"][c.as_str()]["authed"].as_bool().unwrap_or(false))
        .cloned()
        .collect();
    match kind {
        // simultaneous claims of one nickname by registered users
        0 => {
            let n = g.rng.gen_range(0..NICKS.len());
            for c in &authed {
                m.insert(c.clone(), vec![cmd("NICK", vec![vec![s(NICKS[n])]]), cmd("PRIVMSG", vec![vec![s(NICKS[n])], vec![format!("from {}", c)]])]);
            }
        }
        // simultaneous first joins of a fresh channel, then talk
        1 => {
            let ch = format!("#fresh{}", g.rng.gen_range(0..1000));
            for c in &authed {
                m.insert(c.clone(), vec![cmd("JOIN", vec![vec![ch.clone()]]), cmd("PRIVMSG", vec![vec![ch.clone()], vec![format!("hi from {}", c)]]),
                                         cmd("MODE", vec![vec![ch.clone()], vec![s("+l"), s("2")]])]);
            }
        }
        // a +l channel with one free place
        2 => {
            if let Some(first) = authed.get(0) {
                m.insert(first.clone(), vec![cmd("PING", vec![vec![s("x")]])]);
            }
            for c in authed.iter().skip(1) {
                m.insert(c.clone(), vec![cmd("JOIN", vec![vec![s("#lim")]]), cmd("NAMES", vec![vec![s("#lim")]])]);
            }
        }
        // message storm while receivers part, are kicked or renamed
        3 => {
            for (i, c) in authed.iter().enumerate() {
                let sc = match i % 4 {
                    0 => vec![cmd("PRIVMSG", vec![vec![s("#one")], vec![format!("{}-1", c)]]), cmd("PRIVMSG", vec![vec![s("#one")], vec![format!("{}-2", c)]]),
                              cmd("PRIVMSG", vec![vec![s("#one")], vec![format!("{}-3", c)]])],
                    1 => vec![cmd("PART", vec![vec![s("#one")]]), cmd("JOIN", vec![vec![s("#one")]]), cmd("PRIVMSG", vec![vec![s("#one")], vec![format!("{}-back", c)]])],
                    2 => vec![cmd("NICK", vec![vec![g.nick_for(i)]]), cmd("NOTICE", vec![vec![s("#one")], vec![format!("{}-n", c)]])],
                    _ => vec![cmd("KICK", vec![vec![s("#one")], vec![g.some_nick(snap)]]), cmd("TOPIC", vec![vec![s("#one")], vec![format!("topic by {}", c)]])],
                };
                m.insert(c.clone(), sc);
            }
        }
        // KILL vs QUIT vs NICK of the same user
        4 => {
            if authed.len() >= 2 {
                let victim_nick = snap["conns"][authed[1].as_str()]["nick"][0].as_str().unwrap_or("x").to_string();
                m.insert(authed[0].clone(), vec![cmd("OPER", vec![vec![s("god")], vec![s("godpass")]]), cmd("KILL", vec![vec![victim_nick.clone()], vec![s("bye")]]),
                                                 cmd("WHOIS", vec![vec![victim_nick.clone()]])]);
                m.insert(authed[1].clone(), vec![cmd("NICK", vec![vec![s("moved")]]), cmd("PRIVMSG", vec![vec![s("#one")], vec![s("still here")]]), cmd("QUIT", vec![])]);
                for c in authed.iter().skip(2) {
                    m.insert(c.clone(), vec![cmd("WHOIS", vec![vec![victim_nick.clone()]]), cmd("NAMES", vec![vec![s("#one")]])]);
                }
            }
        }
        // registration races: unregistered connections claim the same nick (with/without password)
        5 => {
            let n = s(NICKS[g.rng.gen_range(0..NICKS.len())]);
            for (i, c) in unauth.iter().enumerate() {
                let idx = CONNS.iter().position(|x| *x == c.as_str()).unwrap_or(0) + 1;
                let mut sc = vec![];
                if g.profile == "pw" || g.profile == "full" {
                    sc.push(cmd("PASS", vec![vec![s(if i % 3 == 2 { "wrong" } else { "srvpass" })]]));
                }
                sc.push(cmd("NICK", vec![vec![n.clone()]]));
                sc.push(cmd("USER", vec![vec![format!("u{}", idx)], vec![s("R")]]));
                sc.push(cmd("PRIVMSG", vec![vec![n.clone()], vec![format!("i am {}", c)]]));
                m.insert(c.clone(), sc);
            }
            for c in &authed {
                m.insert(c.clone(), vec![cmd("NICK", vec![vec![n.clone()]]), cmd("ISON", vec![vec![n.clone()]])]);
            }
        }
        // simultaneous registrations under distinct nicknames while the others ask for the counts
        8 => {
            for (i, c) in unauth.iter().enumerate() {
                let idx = CONNS.iter().position(|x| *x == c.as_str()).unwrap_or(0) + 1;
                let mut sc = vec![];
                if g.profile == "pw" || g.profile == "full" {
                    sc.push(cmd("PASS", vec![vec![s("srvpass")]]));
                }
                sc.push(cmd("NICK", vec![vec![format!("fresh{}", i)]]));
                sc.push(cmd("USER", vec![vec![format!("u{}", idx)], vec![s("R")]]));
                sc.push(cmd("LUSERS", vec![]));
                m.insert(c.clone(), sc);
            }
            for c in &authed {
                m.insert(c.clone(), vec![cmd("LUSERS", vec![]), cmd("ISON", vec![vec![s("fresh0"), s("fresh1"), s("fresh2")]])]);
            }
        }
        // fresh connections claim ONE nickname and complete registration together, while an operator
        // login (password hashing under the state lock) makes them queue up
        9 => {
            let n = s(NICKS[g.rng.gen_range(0..NICKS.len())]);
            for c in unauth.iter() {
                let idx = CONNS.iter().position(|x| *x == c.as_str()).unwrap_or(0) + 1;
                let mut sc = vec![];
                if g.profile == "pw" || g.profile == "full" {
                    sc.push(cmd("PASS", vec![vec![s("srvpass")]]));
                }
                sc.push(cmd("NICK", vec![vec![n.clone()]]));
                sc.push(cmd("USER", vec![vec![format!("u{}", idx)], vec![s("R")]]));
                sc.push(cmd("WHOIS", vec![vec![n.clone()]]));
                m.insert(c.clone(), sc);
            }
            if let Some(c) = authed.get(0) {
                m.insert(c.clone(), vec![cmd("OPER", vec![vec![s("god")], vec![s("godpass")]]), cmd("ISON", vec![vec![n.clone()]])]);
            }
        }
        // sessions end (QUIT) while others talk to the shared channel, rename and part, and an operator login
        // (password hashing under the state write lock) makes everybody queue up: the leaving user is still in
        // the tables when the others' fan-outs run
        11 => {
            if authed.len() >= 3 {
                let nq = if authed.len() >= 5 && g.rng.gen_bool(0.5) { 2 } else { 1 };
                let wrong = if g.rng.gen_bool(0.7) { "wrongpass" } else { "godpass" };
                m.insert(authed[0].clone(), vec![cmd("OPER", vec![vec![s("god")], vec![s(wrong)]]), cmd("OPER", vec![vec![s("god")], vec![s("wrongpass")]]),
                                                 cmd("PRIVMSG", vec![vec![s("#one")], vec![format!("{}-op", authed[0])]])]);
                for (i, c) in authed.iter().enumerate().skip(1) {
                    let sc = if i <= nq {
                        if g.rng.gen_bool(0.5) {
                            vec![cmd("PRIVMSG", vec![vec![s("#one")], vec![format!("{}-bye", c)]]), cmd("QUIT", vec![])]
                        } else {
                            vec![cmd("QUIT", vec![])]
                        }
                    } else {
                        match (i + g.rng.gen_range(0..3)) % 3 {
                            0 => vec![cmd("PRIVMSG", vec![vec![s("#one")], vec![format!("{}-1", c)]]), cmd("NOTICE", vec![vec![s("#one")], vec![format!("{}-2", c)]]),
                                      cmd("PRIVMSG", vec![vec![s("#one")], vec![format!("{}-3", c)]])],
                            1 => vec![cmd("NICK", vec![vec![g.nick_for(i)]]), cmd("PRIVMSG", vec![vec![s("#one")], vec![format!("{}-n", c)]])],
                            _ => vec![cmd("PRIVMSG", vec![vec![s("#one")], vec![format!("{}-p", c)]]), cmd("PART", vec![vec![s("#one")]]), cmd("JOIN", vec![vec![s("#one")]])],
                        }
                    };
                    m.insert(c.clone(), sc);
                }
            }
        }
        // churn on an invite-only channel: the founder sets +i, invites, kicks and lifts +i again while the others
        // leave, come back and talk
        12 => {
            if authed.len() >= 3 {
                let nick_of = |c: &String| snap["conns"][c.as_str()]["nick"][0].as_str().unwrap_or("x").to_string();
                let last = authed[authed.len() - 1].clone();
                m.insert(authed[0].clone(), vec![cmd("MODE", vec![vec![s("#one")], vec![s("+i")]]), cmd("INVITE", vec![vec![nick_of(&last)], vec![s("#one")]]),
                                                 cmd("KICK", vec![vec![s("#one")], vec![nick_of(&authed[1])]]), cmd("MODE", vec![vec![s("#one")], vec![s("-i")]])]);
                m.insert(authed[1].clone(), vec![cmd("TOPIC", vec![vec![s("#one")], vec![format!("topic of {}", authed[1])]]), cmd("JOIN", vec![vec![s("#one")]]),
                                                 cmd("NAMES", vec![vec![s("#one")]])]);
                for c in authed.iter().skip(2) {
                    m.insert(c.clone(), vec![cmd("PART", vec![vec![s("#one")]]), cmd("JOIN", vec![vec![s("#one")]]), cmd("PRIVMSG", vec![vec![s("#one")], vec![format!("{}-in?", c)]]),
                                             cmd("JOIN", vec![vec![s("#one")]])]);
                }
            }
        }
        // key and limit changes race with joins and parts of the limited channel
        13 => {
            if let Some(first) = authed.get(0) {
                m.insert(first.clone(), vec![cmd("MODE", vec![vec![s("#lim")], vec![s("+k"), s("key")]]), cmd("MODE", vec![vec![s("#lim")], vec![s("-l")]]),
                                             cmd("MODE", vec![vec![s("#lim")], vec![s("+l"), s("3")]]), cmd("MODE", vec![vec![s("#lim")], vec![s("-k"), s("key")]])]);
            }
            for (i, c) in authed.iter().enumerate().skip(1) {
                let sc = if i % 2 == 0 {
                    vec![cmd("JOIN", vec![vec![s("#lim")]]), cmd("JOIN", vec![vec![s("#lim")], vec![s("key")]]), cmd("NAMES", vec![vec![s("#lim")]])]
                } else {
                    vec![cmd("JOIN", vec![vec![s("#lim")], vec![s("key")]]), cmd("PART", vec![vec![s("#lim")]]), cmd("JOIN", vec![vec![s("#lim")]])]
                };
                m.insert(c.clone(), sc);
            }
        }
        // a nickname is given up (QUIT) while a registered user renames to it, fresh connections claim it and
        // others look it up and write to it
        14 => {
            if authed.len() >= 3 {
                let freed = snap["conns"][authed[1].as_str()]["nick"][0].as_str().unwrap_or("x").to_string();
                m.insert(authed[1].clone(), vec![cmd("PRIVMSG", vec![vec![s("#one")], vec![s("leaving")]]), cmd("QUIT", vec![])]);
                m.insert(authed[2].clone(), vec![cmd("NICK", vec![vec![freed.clone()]]), cmd("PRIVMSG", vec![vec![s("#one")], vec![s("renamed?")]])]);
                m.insert(authed[0].clone(), vec![cmd("WHOIS", vec![vec![freed.clone()]]), cmd("PRIVMSG", vec![vec![freed.clone()], vec![s("who are you")]]),
                                                 cmd("ISON", vec![vec![freed.clone()]])]);
                for c in authed.iter().skip(3) {
                    m.insert(c.clone(), vec![cmd("NICK", vec![vec![freed.clone()]]), cmd("WHOWAS", vec![vec![freed.clone()]])]);
                }
                for c in unauth.iter() {
                    let idx = CONNS.iter().position(|x| *x == c.as_str()).unwrap_or(0) + 1;
                    let mut sc = vec![];
                    if g.profile == "pw" || g.profile == "full" {
                        sc.push(cmd("PASS", vec![vec![s("srvpass")]]));
                    }
                    sc.push(cmd("NICK", vec![vec![freed.clone()]]));
                    sc.push(cmd("USER", vec![vec![format!("u{}", idx)], vec![s("R")]]));
                    m.insert(c.clone(), sc);
                }
            }
        }
        // registered users rename to ONE free nickname at the same moment while an operator login (password hashing
        // under the state write lock) makes them queue up; afterwards each says who it is and is looked up
        15 => {
            if authed.len() >= 3 {
                let n = format!("prize{}", g.rng.gen_range(0..1000));
                m.insert(authed[0].clone(), vec![cmd("OPER", vec![vec![s("god")], vec![s("wrongpass")]]), cmd("WHOIS", vec![vec![n.clone()]]), cmd("NAMES", vec![vec![s("#one")]])]);
                for c in authed.iter().skip(1) {
                    m.insert(c.clone(), vec![cmd("NICK", vec![vec![n.clone()]]), cmd("PRIVMSG", vec![vec![s("#one")], vec![format!("i am {}", c)]]), cmd("MODE", vec![vec![n.clone()]])]);
                }
            }
        }
        // rank and membership of the issuer change while his TOPIC / INVITE / KICK are on their way, everybody
        // queueing behind an operator login that holds the state lock
        16 => {
            if authed.len() >= 3 {
                let nick_of = |c: &String| snap["conns"][c.as_str()]["nick"][0].as_str().unwrap_or("x").to_string();
                let b = authed[1].clone();
                let bn = nick_of(&b);
                let extra = if authed.len() > 3 { nick_of(&authed[3]) } else { s("nobody") };
                m.insert(authed[0].clone(), match g.rng.gen_range(0..3) {
                    0 => vec![cmd("KICK", vec![vec![s("#one")], vec![bn.clone()]]), cmd("MODE", vec![vec![s("#one")], vec![s("+t")]])],
                    1 => vec![cmd("MODE", vec![vec![s("#one")], vec![s("+t")]]), cmd("MODE", vec![vec![s("#one")], vec![s("+i")]]), cmd("MODE", vec![vec![s("#one")], vec![s("-ti")]])],
                    _ => vec![cmd("MODE", vec![vec![s("#one")], vec![s("+o"), bn.clone()]]), cmd("MODE", vec![vec![s("#one")], vec![s("-o"), bn.clone()]]), cmd("KICK", vec![vec![s("#one")], vec![bn.clone()]])],
                });
                m.insert(b.clone(), vec![cmd("TOPIC", vec![vec![s("#one")], vec![format!("{} was here", bn)]]), cmd("INVITE", vec![vec![extra.clone()], vec![s("#one")]]),
                                         cmd("KICK", vec![vec![s("#one")], vec![nick_of(&authed[2])]]), cmd("TOPIC", vec![vec![s("#one")]])]);
                m.insert(authed[2].clone(), vec![cmd("OPER", vec![vec![s("god")], vec![s("wrongpass")]]), cmd("TOPIC", vec![vec![s("#one")], vec![s("another topic")]]), cmd("NAMES", vec![vec![s("#one")]])]);
                for c in authed.iter().skip(3) {
                    m.insert(c.clone(), vec![cmd("PART", vec![vec![s("#one")]]), cmd("JOIN", vec![vec![s("#one")]]), cmd("TOPIC", vec![vec![s("#one")]])]);
                }
            }
        }
        // one command with dozens of echoes to its issuer, the next commands already in the pipe
        17 => {
            let many: Vec<String> = (0..40).map(|k| format!("#b{}", k)).collect();
            for (i, c) in authed.iter().enumerate() {
                let sc = if i % 2 == 0 {
                    vec![cmd("JOIN", vec![many.clone()]), cmd("PART", vec![many.clone()]), cmd("PING", vec![vec![format!("after-{}", c)]]), cmd("LUSERS", vec![])]
                } else {
                    vec![cmd("JOIN", vec![many[..12].to_vec()]), cmd("PRIVMSG", vec![vec![s("#b3")], vec![format!("{} here", c)]]), cmd("PART", vec![many[..12].to_vec(), vec![s("bye")]]),
                         cmd("PING", vec![vec![s("x")]])]
                };
                m.insert(c.clone(), sc);
            }
        }
        // random scripts
        _ => {
            for c in conns {
                if snap["conns"][c.as_str()].is_null() {
                    continue;
                }
                let k = g.rng.gen_range(1..4);
                let mut sc = vec![];
                for _ in 0..k {
                    let (_, cm) = g.next_for(snap, c);
                    let v = wire::verb(&cm);
                    if v.starts_with('!') || v == "QUIT" || v == "DIE" || v == "SQUIT" {
                        continue;
                    }
                    sc.push(cm);
                }
                if !sc.is_empty() {
                    m.insert(c.clone(), sc);
                }
            }
        }
    }
    m
}

impl Gen {
    pub fn nick_for(&mut self, i: usize) -> String {
        NICKS[(i + self.rng.gen_range(0..NICKS.len())) % NICKS.len()].to_string()
    }
    pub fn some_nick(&mut self, snap: &Value) -> String {
        let ex: Vec<String> = snap["users"].as_object().map(|o| o.keys().cloned().collect()).unwrap_or_default();
        ex.choose(&mut self.rng).cloned().unwrap_or_else(|| "nobody".to_string())
    }
    pub fn next_for(&mut self, snap: &Value, c: &str) -> (String, Value) {
        let k = &snap["conns"][c];
        if k.is_null() {
            return (c.to_string(), cmd("!open", vec![]));
        }
        // reuse the sequential generator's choices for this connection
        let authed = k["authed"].as_bool().unwrap_or(false);
        let v = if authed { self.reg_cmd(snap, c) } else { self.pre_cmd(snap, c) };
        (c.to_string(), v)
    }
}

async fn run_rounds(id: &str, cfg: &Value, seed: u64, rounds: usize, nconn: usize, kinds: &[usize], out: &mut Vec<Value>) {
    let cfgn = normalize_cfg(cfg);
    let mut sess = Session::start(&cfgn).await;
    take_panics();
    let profile = cfg["_profile"].as_str().unwrap_or("plain").to_string();
    let mut g = Gen { rng: StdRng::seed_from_u64(seed), profile: profile.clone() };
    let conns: Vec<String> = CONNS.iter().take(nconn).map(|x| x.to_string()).collect();
    // sequential setup: open all, register most, join #one
    let mut snap = sess.snapshot().await;
    for (i, c) in conns.iter().enumerate() {
        sess.step(c, &cmd("!open", vec![])).await;
        if i + 2 < conns.len() || g.rng.gen_bool(0.5) {
            if profile == "pw" {
                sess.step(c, &cmd("PASS", vec![vec![s("srvpass")]])).await;
            }
            sess.step(c, &cmd("NICK", vec![vec![s(NICKS[i])]])).await;
            sess.step(c, &cmd("USER", vec![vec![format!("u{}", i + 1)], vec![s("R")]])).await;
            sess.step(c, &cmd("JOIN", vec![vec![s("#one")]])).await;
        }
    }
    if let Some(c0) = conns.get(0) {
        sess.step(c0, &cmd("JOIN", vec![vec![s("#lim")]])).await;
        sess.step(c0, &cmd("MODE", vec![vec![s("#lim")], vec![s("+l"), s("2")]])).await;
    }
    verif::RACE_SEED.store(seed, Ordering::SeqCst);
    verif::RACE_ARMED.store(true, Ordering::SeqCst);
    for r in 0..rounds {
        snap = sess.snapshot().await;
        if !snap["dead"].as_array().map(|a| a.is_empty()).unwrap_or(true) || snap["blocked"].as_bool().unwrap_or(false) {
            break;
        }
        // re-open connections that ended in earlier rounds
        for (i, c) in conns.iter().enumerate() {
            if snap["conns"][c.as_str()].is_null() {
                sess.step(c, &cmd("!open", vec![])).await;
                // most of them register again (under a new name) and come back to the shared channel
                if g.rng.gen_bool(0.6) {
                    if profile == "pw" {
                        sess.step(c, &cmd("PASS", vec![vec![s("srvpass")]])).await;
                    }
                    sess.step(c, &cmd("NICK", vec![vec![format!("back{}r{}", i, r)]])).await;
                    sess.step(c, &cmd("USER", vec![vec![format!("u{}", i + 1)], vec![s("R")]])).await;
                    sess.step(c, &cmd("JOIN", vec![vec![s("#one")]])).await;
                }
            }
        }
        snap = sess.snapshot().await;
        let kind = if kinds.is_empty() { (seed as usize + r) % 18 } else { kinds[(seed as usize + r) % kinds.len()] };
        if kind == 8 || kind == 9 {
            // make room for fresh registrations: three connections start over
            for c in conns.iter().skip(2) {
                sess.step(c, &cmd("!close", vec![])).await;
                sess.retire_ended();
                sess.step(c, &cmd("!open", vec![])).await;
            }
            snap = sess.snapshot().await;
        }
        let scripts = scenario_scripts(kind, &mut g, &snap, &conns);
        if scripts.is_empty() {
            continue;
        }
        // fire all scripts at once: every connection writes its whole script in one go
        let mut payloads: Vec<(String, Vec<u8>)> = vec![];
        for (c, sc) in scripts.iter() {
            let mut d = vec![];
            for cm in sc {
                d.extend_from_slice(wire::to_line(cm).as_bytes());
                d.extend_from_slice(b"\r\n");
            }
            payloads.push((c.clone(), d));
        }
        payloads.shuffle(&mut g.rng);
        // take the sockets out so that the writes really happen in parallel tasks
        let mut taken = vec![];
        for (c, d) in payloads {
            if let Some(cl) = sess.clients.get_mut(&c) {
                if let Some(stream) = cl.stream.take() {
                    let nl = d.iter().filter(|b| **b == b'\n').count() as u64;
                    cl.sent_lines += nl;
                    taken.push((c.clone(), d, stream));
                }
            }
        }
        let barrier = std::sync::Arc::new(tokio::sync::Barrier::new(taken.len().max(1)));
        let mut handles = vec![];
        for (c, d, stream) in taken {
            let b = barrier.clone();
            handles.push((c, tokio::spawn(async move {
                let mut stream = stream;
                b.wait().await;
                let _ = tokio::time::timeout(Duration::from_secs(3), stream.write_all(&d)).await;
                stream
            })));
        }
        for (c, h) in handles {
            if let Ok(stream) = h.await {
                if let Some(cl) = sess.clients.get_mut(&c) {
                    cl.stream = Some(stream);
                }
            }
        }
        let mut issue: Vec<String> = vec![];
        if let Err(StepIssue::Watchdog(w)) = sess.quiesce(Duration::from_millis(4000)).await {
            issue.push(format!("watchdog: {}", w));
        }
        let outs = match sess.collect(Duration::from_millis(3000)).await {
            Ok(o) => o,
            Err(StepIssue::Watchdog(w)) => {
                issue.push(format!("watchdog(read): {}", w));
                vec![]
            }
        };
        let post = sess.snapshot().await;
        if post["blocked"].as_bool().unwrap_or(false) {
            issue.push("watchdog: the server state stayed locked for 8 s (a handler is holding it)".to_string());
        }
        sess.retire_ended();
        // per receiver: the direct stream (non-relay lines) and, per sending connection, the relays
        let mut direct: Map<String, Value> = Map::new();
        let mut relay: Map<String, Value> = Map::new();
        // per socket, in arrival order: everything except what other connections' commands relayed to it
        let mut own: Map<String, Value> = Map::new();
        for c in &conns {
            own.insert(c.clone(), json!([]));
            direct.insert(c.clone(), json!([]));
            let mut per = Map::new();
            for s2 in &conns {
                per.insert(s2.clone(), json!([]));
            }
            relay.insert(c.clone(), Value::Object(per));
        }
        for m in outs.iter() {
            let to = m["to"].as_str().unwrap_or("").to_string();
            if m["k"] == "r" {
                let src = m["src"].as_str().unwrap_or("");
                let host = src.rsplit('@').next().unwrap_or("").to_string();
                if host == to {
                    if let Some(arr) = own.get_mut(&to).and_then(|x| x.as_array_mut()) {
                        arr.push(m.clone());
                    }
                }
                if let Some(arr) = relay.get_mut(&to).and_then(|x| x.get_mut(&host)).and_then(|x| x.as_array_mut()) {
                    arr.push(m.clone());
                } else {
                    issue.push(format!("relay from unknown source {}", src));
                }
            } else {
                if let Some(arr) = own.get_mut(&to).and_then(|x| x.as_array_mut()) {
                    arr.push(m.clone());
                }
                if let Some(arr) = direct.get_mut(&to).and_then(|x| x.as_array_mut()) {
                    arr.push(m.clone());
                }
            }
        }
        let scr: Map<String, Value> = conns
            .iter()
            .map(|c| (c.clone(), Value::Array(scripts.get(c).cloned().unwrap_or_default())))
            .collect();
        let panics = take_panics();
        out.push(json!({"round": r + 1, "b": id, "kind": kind, "cfg": cfgn, "conns": conns, "pre": snap, "scripts": scr,
                        "direct": direct, "relay": relay, "own": own, "post": post, "issue": issue, "panics": panics,
                        "race_hits": verif::RACE_HITS.load(Ordering::SeqCst)}));
        // liveness: every live connection still answers
        let live: Vec<String> = sess.clients.keys().cloned().collect();
        for c in live {
            let (o, i) = sess.step(&c, &cmd("PING", vec![vec![s("alive")]])).await;
            let authed = post["conns"][c.as_str()]["authed"].as_bool().unwrap_or(false);
            let answered = o.iter().any(|m| m["to"] == c.as_str() && (m["c"] == "PONG" || m["c"] == "451"));
            if !post["conns"][c.as_str()].is_null() && (!answered || i.is_some()) {
                out.push(json!({"liveness": true, "b": id, "round": r + 1, "c": c, "authed": authed, "answered": answered, "issue": i}));
            }
        }
    }
    verif::RACE_ARMED.store(false, Ordering::SeqCst);
    let _ = tokio::time::timeout(Duration::from_secs(5), sess.stop()).await;
}

pub fn main(args: &[String]) -> i32 {
    if args.is_empty() {
        eprintln!("conc <out.ndjson> --seed S --rounds N [--workers W] [--episodes E] [--kinds 3,11]");
        return 2;
    }
    let seed: u64 = arg_val(args, "--seed").and_then(|s| s.parse().ok()).unwrap_or(1);
    let rounds: usize = arg_val(args, "--rounds").and_then(|s| s.parse().ok()).unwrap_or(16);
    let episodes: usize = arg_val(args, "--episodes").and_then(|s| s.parse().ok()).unwrap_or(1);
    let workers: usize = arg_val(args, "--workers").and_then(|s| s.parse().ok()).unwrap_or(4);
    let kinds: Vec<usize> = arg_val(args, "--kinds").map(|s| s.split(',').filter_map(|x| x.parse().ok()).collect()).unwrap_or_default();
    let base: u16 = arg_val(args, "--port-base").and_then(|s| s.parse().ok()).unwrap_or(30000);
    set_port_base(base);
    let mut w = BufWriter::new(std::fs::File::create(&args[0]).expect("create output"));
    let rt = runtime(workers);
    let profiles = ["plain", "pw", "modes", "plain"];
    for e in 0..episodes {
        let profile = profiles[(seed as usize + e) % profiles.len()];
        let mut cfg = profile_cfg(profile);
        cfg["_profile"] = json!(profile);
        if cfg["operators"].is_null() {
            cfg["operators"] = json!([{"name": "god", "pass": "godpass"}]);
        }
        let mut recs = vec![];
        let id = format!("conc-{}-{}-{}-w{}", seed, e, profile, workers);
        rt.block_on(run_rounds(&id, &cfg, seed.wrapping_mul(7919).wrapping_add(e as u64), rounds, 5, &kinds, &mut recs));
        for r in recs {
            writeln!(w, "{}", r).unwrap();
        }
    }
    w.flush().unwrap();
    0
}
