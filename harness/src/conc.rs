pub fn main(_args: &[String]) -> i32 { eprintln!("conc: not built yet"); 2 }
