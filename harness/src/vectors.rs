// Pure-function conformance: vectors enumerated by TLC from the reference definitions
// (GlobVec.tla, Parser.tla) are evaluated by the real functions.  The real functions run
// in a child process fed in batches with a time budget, every call under catch_unwind:
// a panic, a non-termination (the batch is bisected down to the offending vector) or a
// different answer is a divergence.

use crate::command::{Command, Message};
use crate::utils::{match_wildcard, normalize_sourcemask};
use serde_json::{json, Value};
use std::io::{BufRead, BufReader, BufWriter, Read, Write};
use std::process::{Child, Command as PCommand, Stdio};
use std::sync::mpsc;
use std::time::Duration;

fn panic_text(e: Box<dyn std::any::Any + Send>) -> String {
    if let Some(s) = e.downcast_ref::<&str>() {
        s.to_string()
    } else if let Some(s) = e.downcast_ref::<String>() {
        s.clone()
    } else {
        "panic".to_string()
    }
}

// one request -> one response line
fn eval(req: &Value) -> Value {
    match req["k"].as_str().unwrap_or("") {
        "glob" => {
            let m = req["m"].as_str().unwrap_or("").to_string();
            let t = req["t"].as_str().unwrap_or("").to_string();
            match std::panic::catch_unwind(|| match_wildcard(&m, &t)) {
                Ok(b) => json!({"r": b}),
                Err(e) => json!({"panic": panic_text(e)}),
            }
        }
        "norm" => {
            let m = req["m"].as_str().unwrap_or("").to_string();
            match std::panic::catch_unwind(|| normalize_sourcemask(&m)) {
                Ok(s) => json!({"r": s}),
                Err(e) => json!({"panic": panic_text(e)}),
            }
        }
        "parse" => {
            let line = req["line"].as_str().unwrap_or("").to_string();
            match std::panic::catch_unwind(|| parse_view(&line)) {
                Ok(v) => v,
                Err(e) => json!({"panic": panic_text(e)}),
            }
        }
        "ser" => {
            // relay serialisation: message as received -> line with a source -> tokens
            let line = req["line"].as_str().unwrap_or("").to_string();
            let src = req["src"].as_str().unwrap_or("").to_string();
            match std::panic::catch_unwind(|| match Message::from_shared_str(&line) {
                Ok(m) => json!({"r": m.to_string_with_source(&src)}),
                Err(e) => json!({"err": format!("{:?}", e)}),
            }) {
                Ok(v) => v,
                Err(e) => json!({"panic": panic_text(e)}),
            }
        }
        _ => json!({"err": "unknown request"}),
    }
}

// what the implementation's tokeniser and command parser make of a line
fn parse_view(line: &str) -> Value {
    match Message::from_shared_str(line) {
        Err(e) => json!({"msg": format!("{:?}", e), "exec": false}),
        Ok(m) => {
            let dbg = format!("{:?}", m);
            // Message { source: .., command: "..", params: [..] } - fields are private to the
            // module, so recover them from the Debug rendering
            let (source, command, params) = parse_message_debug(&dbg);
            let class = match Command::from_message(&m) {
                Ok(_) => "ok".to_string(),
                Err(e) => {
                    let d = format!("{:?}", e);
                    d.split(|c| c == '(' || c == ' ' || c == '{').next().unwrap_or("").to_string()
                }
            };
            let exec = class == "ok";
            let known = class != "UnknownCommand";
            let enough = class != "NeedMoreParams";
            json!({"msg": "ok", "source": source, "command": command, "params": params, "class": class,
                   "exec": exec, "known": known, "enough": enough})
        }
    }
}

// parse `Message { source: Some("x"), command: "y", params: ["a", "b c"] }`
fn parse_message_debug(d: &str) -> (Value, String, Vec<String>) {
    fn read_str(s: &str) -> (String, &str) {
        // s starts with '"'
        let mut out = String::new();
        let mut it = s[1..].char_indices();
        while let Some((i, c)) = it.next() {
            if c == '\\' {
                if let Some((_, n)) = it.next() {
                    match n {
                        'n' => out.push('\n'),
                        't' => out.push('\t'),
                        'r' => out.push('\r'),
                        'u' => {
                            // \u{XXXX}
                            let mut hex = String::new();
                            for (_, h) in it.by_ref() {
                                if h == '}' {
                                    break;
                                }
                                if h != '{' {
                                    hex.push(h);
                                }
                            }
                            if let Some(ch) = u32::from_str_radix(&hex, 16).ok().and_then(char::from_u32) {
                                out.push(ch);
                            }
                        }
                        x => out.push(x),
                    }
                }
            } else if c == '"' {
                return (out, &s[1 + i + 1..]);
            } else {
                out.push(c);
            }
        }
        (out, "")
    }
    let mut source = json!([]);
    let mut rest = d;
    if let Some(p) = rest.find("source: ") {
        rest = &rest[p + 8..];
        if rest.starts_with("Some(") {
            let (s, r) = read_str(&rest[5..]);
            source = json!([s]);
            rest = r;
        }
    }
    let mut command = String::new();
    if let Some(p) = rest.find("command: ") {
        let (s, r) = read_str(&rest[p + 9..]);
        command = s;
        rest = r;
    }
    let mut params = vec![];
    if let Some(p) = rest.find("params: [") {
        rest = &rest[p + 9..];
        loop {
            let r = rest.trim_start_matches(|c| c == ',' || c == ' ');
            if r.starts_with('"') {
                let (s, r2) = read_str(r);
                params.push(s);
                rest = r2;
            } else {
                break;
            }
        }
    }
    (source, command, params)
}

pub fn child_main() -> i32 {
    std::panic::set_hook(Box::new(|_| {}));
    let stdin = std::io::stdin();
    let stdout = std::io::stdout();
    let mut out = BufWriter::new(stdout.lock());
    for line in stdin.lock().lines() {
        let line = match line {
            Ok(l) => l,
            Err(_) => break,
        };
        if line == "FLUSH" {
            writeln!(out, "FLUSHED").ok();
            out.flush().ok();
            continue;
        }
        let req: Value = serde_json::from_str(&line).unwrap_or(json!({}));
        let r = eval(&req);
        writeln!(out, "{}", r).ok();
    }
    out.flush().ok();
    0
}

struct Worker {
    child: Child,
    rx: mpsc::Receiver<String>,
}

impl Worker {
    fn spawn() -> Worker {
        let exe = std::env::current_exe().unwrap();
        let mut child = PCommand::new(exe)
            .arg("vecchild")
            .stdin(Stdio::piped())
            .stdout(Stdio::piped())
            .stderr(Stdio::null())
            .spawn()
            .expect("spawn child");
        let stdout = child.stdout.take().unwrap();
        let (tx, rx) = mpsc::channel();
        std::thread::spawn(move || {
            for l in BufReader::new(stdout).lines() {
                match l {
                    Ok(l) => {
                        if tx.send(l).is_err() {
                            break;
                        }
                    }
                    Err(_) => break,
                }
            }
        });
        Worker { child, rx }
    }

    // Some(results) if the whole batch came back in time
    fn run(&mut self, batch: &[Value], budget: Duration) -> Option<Vec<Value>> {
        {
            let stdin = self.child.stdin.as_mut()?;
            let mut buf = String::new();
            for b in batch {
                buf.push_str(&b.to_string());
                buf.push('\n');
            }
            buf.push_str("FLUSH\n");
            if stdin.write_all(buf.as_bytes()).is_err() {
                return None;
            }
            stdin.flush().ok();
        }
        let mut res = vec![];
        let deadline = std::time::Instant::now() + budget;
        loop {
            let left = deadline.saturating_duration_since(std::time::Instant::now());
            match self.rx.recv_timeout(left) {
                Ok(l) => {
                    if l == "FLUSHED" {
                        return if res.len() == batch.len() { Some(res) } else { None };
                    }
                    res.push(serde_json::from_str(&l).unwrap_or(json!({"err": "bad child line"})));
                }
                Err(_) => return None,
            }
        }
    }

    fn kill(mut self) {
        let _ = self.child.kill();
        let _ = self.child.wait();
    }
}

// evaluate all requests; a request that never comes back is reported as {"hang":true}
fn eval_all(reqs: &[Value]) -> Vec<Value> {
    let mut out = vec![json!(null); reqs.len()];
    let mut w = Worker::spawn();
    let mut stack: Vec<(usize, usize)> = vec![];
    let bs = 5000;
    let mut i = 0;
    while i < reqs.len() {
        stack.push((i, (i + bs).min(reqs.len())));
        i += bs;
    }
    stack.reverse();
    while let Some((a, b)) = stack.pop() {
        let budget = Duration::from_millis(3000 + (b - a) as u64 / 2);
        match w.run(&reqs[a..b], budget) {
            Some(r) => {
                for (k, v) in r.into_iter().enumerate() {
                    out[a + k] = v;
                }
            }
            None => {
                w.kill();
                w = Worker::spawn();
                if b - a == 1 {
                    out[a] = json!({"hang": true});
                } else {
                    let mid = (a + b) / 2;
                    stack.push((mid, b));
                    stack.push((a, mid));
                }
            }
        }
    }
    w.kill();
    out
}

pub fn main(args: &[String]) -> i32 {
    if args.len() < 3 {
        eprintln!("vectors <glob|norm|parse|ser> <in.ndjson> <out.ndjson>");
        return 2;
    }
    let kind = args[0].as_str();
    let f = std::fs::File::open(&args[1]).expect("open vectors");
    let mut lines: Vec<Value> = vec![];
    for l in BufReader::new(f).lines() {
        let l = l.unwrap();
        if l.trim().is_empty() {
            continue;
        }
        lines.push(serde_json::from_str(&l).expect("vector json"));
    }
    let mut reqs = vec![];
    let mut expect = vec![];
    match kind {
        "glob" => {
            // first line {"texts": [...]}, then {"m": mask, "ts": [matching texts]}
            let texts: Vec<String> = lines[0]["texts"]
                .as_array()
                .unwrap()
                .iter()
                .map(|x| x.as_str().unwrap().to_string())
                .collect();
            for v in &lines[1..] {
                let m = v["m"].as_str().unwrap();
                let ts: std::collections::HashSet<&str> =
                    v["ts"].as_array().unwrap().iter().map(|x| x.as_str().unwrap()).collect();
                for t in &texts {
                    reqs.push(json!({"k": "glob", "m": m, "t": t}));
                    expect.push(json!(ts.contains(t.as_str())));
                }
            }
        }
        "norm" => {
            for v in &lines {
                reqs.push(json!({"k": "norm", "m": v["m"]}));
                expect.push(v["n"].clone());
            }
        }
        "parse" => {
            for v in &lines {
                reqs.push(json!({"k": "parse", "line": v["line"]}));
                expect.push(v["exp"].clone());
            }
        }
        // relay round trip: the line as received, re-serialised with a source, must re-parse (by the
        // harness's own tokenizer) to the same command and parameters
        "ser" => {
            for v in &lines {
                reqs.push(json!({"k": "ser", "line": v["line"], "src": v["src"]}));
                expect.push(v["exp"].clone());
            }
        }
        _ => return 2,
    }
    let mut res = eval_all(&reqs);
    if kind == "ser" {
        for r in res.iter_mut() {
            if let Some(line) = r.get("r").and_then(|x| x.as_str()).map(|x| x.to_string()) {
                if let Some(t) = crate::wire::tokenize(&line) {
                    *r = json!({"r": line, "prefix": t.prefix.unwrap_or_default(), "command": t.command, "params": t.params});
                }
            }
        }
    }
    let mut w = BufWriter::new(std::fs::File::create(&args[2]).expect("create out"));
    let mut bad = 0;
    for ((rq, ex), got) in reqs.iter().zip(expect.iter()).zip(res.iter()) {
        let ok = match kind {
            "glob" | "norm" => got.get("r") == Some(ex),
            _ => {
                // compare the fields the expectation names
                ex.as_object()
                    .map(|o| o.iter().all(|(k, v)| got.get(k) == Some(v)))
                    .unwrap_or(false)
            }
        };
        if !ok {
            bad += 1;
            writeln!(w, "{}", json!({"kind": "vector", "class": kind, "req": rq, "expected": ex, "got": got})).unwrap();
        }
    }
    writeln!(w, "{}", json!({"summary": true, "class": kind, "vectors": reqs.len(), "divergent": bad})).unwrap();
    w.flush().unwrap();
    0
}
