pub fn main(_args: &[String]) -> i32 { eprintln!("vectors: not built yet"); 2 }
pub fn child_main() -> i32 { 2 }
