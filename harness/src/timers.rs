// C17 in real time: for each (ping_timeout, pong_timeout, client pattern) one server and one
// client; all grid points run concurrently.  The client behaves as the pattern says and
// records when PINGs, the ERROR and the end of the connection arrive (milliseconds since
// registration).  What the timeline must look like is decided by the specification
// (spec/TraceTimers.tla, sharing ExpectedDrop with Keepalive.tla).

use crate::core::*;
use crate::state::*;
use crate::wire::tokenize;
use serde_json::{json, Value};
use std::io::{BufWriter, Write};
use std::time::{Duration, Instant};
use tokio::io::{AsyncBufReadExt, AsyncWriteExt, BufReader};
use tokio::net::TcpStream;

fn answers(pattern: &str, k: u32) -> bool {
    match pattern {
        "never" | "capnever" => false,
        "stops1" => k <= 1,
        "stops2" => k <= 2,
        _ => true,
    }
}
fn delay_ms(pattern: &str) -> u64 {
    match pattern {
        "late1" => 1000,
        "late2" => 2000,
        _ => 0,
    }
}

async fn run_point(ping: u64, pong: u64, pattern: String, port: u16, window_s: u64) -> Value {
    let cfg = normalize_cfg(&json!({"ping": ping, "pong": pong}));
    let config = build_config(&cfg, port);
    let (main, handle) = match run_server(config).await {
        Ok(x) => x,
        Err(e) => return json!({"ping": ping, "pong": pong, "pattern": pattern, "error": e.to_string()}),
    };
    let stream = match TcpStream::connect(("127.0.0.1", port)).await {
        Ok(s) => s,
        Err(e) => return json!({"ping": ping, "pong": pong, "pattern": pattern, "error": e.to_string()}),
    };
    stream.set_nodelay(true).ok();
    quickack(&stream);
    let (rd, mut wr) = stream.into_split();
    let mut rd = BufReader::new(rd);
    let mut nick = "kal";
    let mut line = String::new();
    let mut pre_ping = false;
    let mut _winner = None;
    if pattern == "retry" {
        // the client first loses a registration-time nickname collision (claims the nick, somebody else registers it,
        // 433 at its USER), stays unregistered for longer than ping_timeout - the keep-alive clock must not run yet -
        // and then registers under another nickname; from then on it answers every PING at once
        wr.write_all(b"NICK kal\r\n").await.ok();
        tokio::time::sleep(Duration::from_millis(150)).await;
        if let Ok(w) = TcpStream::connect(("127.0.0.1", port)).await {
            let (wrd, mut wwr) = w.into_split();
            let mut wrd = BufReader::new(wrd);
            wwr.write_all(b"NICK kal\r\nUSER w 0 * :Winner\r\n").await.ok();
            loop {
                line.clear();
                match tokio::time::timeout(Duration::from_secs(5), wrd.read_line(&mut line)).await {
                    Ok(Ok(n)) if n > 0 => {
                        if tokenize(line.trim_end()).map(|t| t.command == "221").unwrap_or(false) {
                            break;
                        }
                    }
                    _ => return json!({"ping": ping, "pong": pong, "pattern": pattern, "error": "winner not welcomed"}),
                }
            }
            // the winner keeps answering its own PINGs in the background
            _winner = Some(tokio::spawn(async move {
                let mut l = String::new();
                loop {
                    l.clear();
                    match wrd.read_line(&mut l).await {
                        Ok(n) if n > 0 => {
                            if l.to_ascii_uppercase().starts_with("PING") {
                                let _ = wwr.write_all(b"PONG :w\r\n").await;
                            }
                        }
                        _ => break,
                    }
                }
            }));
        }
        wr.write_all(b"USER u1 0 * :Keep Alive\r\n").await.ok();
        let until = Instant::now() + Duration::from_millis(ping * 1000 + 600);
        let mut got433 = false;
        loop {
            let left = until.saturating_duration_since(Instant::now());
            if left.is_zero() {
                break;
            }
            line.clear();
            match tokio::time::timeout(left, rd.read_line(&mut line)).await {
                Ok(Ok(n)) if n > 0 => {
                    if let Some(t) = tokenize(line.trim_end()) {
                        if t.command == "433" {
                            got433 = true;
                        }
                        if t.command.to_ascii_uppercase() == "PING" {
                            pre_ping = true;
                            wr.write_all(b"PONG :early\r\n").await.ok();
                        }
                    }
                }
                Ok(_) => return json!({"ping": ping, "pong": pong, "pattern": pattern, "error": "closed while unregistered"}),
                Err(_) => break,
            }
        }
        if !got433 {
            return json!({"ping": ping, "pong": pong, "pattern": pattern, "error": "no 433 for the losing registration"});
        }
        nick = "kal2";
        wr.write_all(b"NICK kal2\r\n").await.ok();
    } else {
        wr.write_all(format!("NICK {}\r\nUSER u1 0 * :Keep Alive\r\n", nick).as_bytes()).await.ok();
    }
    let mut t0 = Instant::now();
    // wait for the end of the welcome burst (221)
    loop {
        line.clear();
        match tokio::time::timeout(Duration::from_secs(5), rd.read_line(&mut line)).await {
            Ok(Ok(n)) if n > 0 => {
                if let Some(t) = tokenize(line.trim_end()) {
                    if t.command == "221" {
                        t0 = Instant::now();
                        break;
                    }
                }
            }
            _ => return json!({"ping": ping, "pong": pong, "pattern": pattern, "error": "no welcome"}),
        }
    }
    if pattern == "capnever" {
        // a capability negotiation re-opened after registration and never closed
        wr.write_all(b"CAP REQ :multi-prefix\r\n").await.ok();
    }
    // the client's own PING must be answered with the same token
    wr.write_all(b"PING mytoken42\r\n").await.ok();
    let mut events: Vec<Value> = vec![];
    let mut pings = 0u32;
    let mut pong_token_ok = false;
    let mut dropped_at: i64 = -1;
    let mut error_at: i64 = -1;
    let deadline = t0 + Duration::from_secs(window_s);
    let mut pending_pongs: Vec<Instant> = vec![];
    loop {
        let now = Instant::now();
        if now >= deadline {
            break;
        }
        // send the PONGs that are due
        let mut i = 0;
        while i < pending_pongs.len() {
            if pending_pongs[i] <= now {
                wr.write_all(b"PONG :whatever-token\r\n").await.ok();
                events.push(json!({"t": now.duration_since(t0).as_millis() as u64, "k": "pong-sent"}));
                pending_pongs.remove(i);
            } else {
                i += 1;
            }
        }
        let next_wake = pending_pongs.iter().min().cloned().unwrap_or(deadline).min(deadline);
        line.clear();
        let wait = next_wake.saturating_duration_since(Instant::now()).max(Duration::from_millis(1));
        match tokio::time::timeout(wait, rd.read_line(&mut line)).await {
            Err(_) => continue,
            Ok(Ok(0)) | Ok(Err(_)) => {
                dropped_at = Instant::now().duration_since(t0).as_millis() as i64;
                events.push(json!({"t": dropped_at, "k": "eof"}));
                break;
            }
            Ok(Ok(_)) => {
                let t = Instant::now().duration_since(t0).as_millis() as u64;
                if let Some(tok) = tokenize(line.trim_end()) {
                    let c = tok.command.to_ascii_uppercase();
                    if c == "PING" {
                        pings += 1;
                        events.push(json!({"t": t, "k": "ping"}));
                        if answers(&pattern, pings) {
                            pending_pongs.push(Instant::now() + Duration::from_millis(delay_ms(&pattern)));
                        }
                    } else if c == "PONG" {
                        if tok.params.last().map(|x| x == "mytoken42").unwrap_or(false) {
                            pong_token_ok = true;
                        }
                    } else if c.starts_with("ERROR") {
                        error_at = t as i64;
                        events.push(json!({"t": t, "k": "error", "text": line.trim_end()}));
                    }
                }
            }
        }
    }
    // C06 after the drop / C17 liveness of a kept client
    tokio::time::sleep(Duration::from_millis(100)).await;
    let snap: Value = serde_json::from_str(&main.verif_snapshot().await).unwrap_or(json!({}));
    let present = !snap["users"][nick].is_null();
    handle.abort();
    json!({"ping": ping, "pong": pong, "pattern": pattern, "window": window_s * 1000, "pings": pings,
           "dropped_at": dropped_at, "error_at": error_at, "pong_token_ok": pong_token_ok,
           "user_present_after": present, "pre_ping": pre_ping, "events": events})
}

pub fn main(args: &[String]) -> i32 {
    if args.is_empty() {
        eprintln!("timers <out.ndjson> [--grid quick|thorough]");
        return 2;
    }
    let grid = arg_val(args, "--grid").unwrap_or_else(|| "quick".to_string());
    let base: u16 = arg_val(args, "--port-base").and_then(|s| s.parse().ok()).unwrap_or(28000);
    let points: Vec<(u64, u64)> = if grid == "thorough" {
        vec![(1, 1), (1, 2), (2, 1), (1, 3), (3, 1), (2, 2), (2, 3), (3, 2), (2, 4), (3, 3)]
    } else {
        vec![(1, 1), (1, 2), (2, 1), (1, 3), (2, 2)]
    };
    let patterns: Vec<&str> = if grid == "thorough" {
        vec!["always", "never", "stops1", "stops2", "late1", "retry", "capnever"]
    } else {
        vec!["always", "never", "stops1", "late1", "retry", "capnever"]
    };
    let rt = runtime(8);
    let results = rt.block_on(async {
        let mut hs = vec![];
        let mut port = base;
        for (pi, po) in &points {
            for pat in &patterns {
                // a late answer is only "in time" if the delay is clearly below pong_timeout
                if *pat == "late1" && *po < 2 {
                    continue;
                }
                let k = match *pat {
                    "never" | "capnever" => 1,
                    "stops1" => 2,
                    "stops2" => 3,
                    _ => 3,
                };
                let window = k * pi + po + 2;
                port += 1;
                hs.push(tokio::spawn(run_point(*pi, *po, pat.to_string(), port, window)));
            }
        }
        let mut out = vec![];
        for h in hs {
            out.push(h.await.unwrap_or(json!({"error": "task failed"})));
        }
        out
    });
    let mut w = BufWriter::new(std::fs::File::create(&args[0]).expect("create"));
    for r in results {
        writeln!(w, "{}", r).unwrap();
    }
    w.flush().unwrap();
    0
}
