pub fn main(_args: &[String]) -> i32 { eprintln!("timers: not built yet"); 2 }
