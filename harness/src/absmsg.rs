// Abstraction function on observed output: wire line -> abstract messages.
//
// An abstract message is {"to","k","c","cl","src","a"}: receiver connection, kind
// ("n" numeric, "s" other server line, "r" relayed user command), code or verb, the
// client name a numeric is addressed to, the source prefix of a relay, and the
// arguments the specification speaks about.  Human-readable trailing texts, timestamps,
// idle times and ISUPPORT tokens are dropped here; set-valued replies (353, 319, 302, 303,
// the list part of 324) are exploded into one message per element so that HashMap
// iteration order in the implementation cannot matter (outputs are compared as bags).

use crate::wire::{tokenize, Tok};
use serde_json::{json, Value};

fn strs(v: &[String]) -> Vec<Value> {
    v.iter().map(|s| Value::String(s.clone())).collect()
}

fn msg(to: &str, k: &str, c: &str, cl: &str, src: &str, a: Vec<String>) -> Value {
    json!({"to": to, "k": k, "c": c, "cl": cl, "src": src, "a": a})
}

fn digits(s: &str) -> Vec<String> {
    // all maximal digit runs
    let mut out = vec![];
    let mut cur = String::new();
    for ch in s.chars() {
        if ch.is_ascii_digit() {
            cur.push(ch);
        } else if !cur.is_empty() {
            out.push(std::mem::take(&mut cur));
        }
    }
    if !cur.is_empty() {
        out.push(cur);
    }
    out
}

// numerics whose trailing parameter carries data the specification speaks about
fn keeps_trailing(code: &str) -> bool {
    matches!(
        code,
        "301" | "332" | "372" | "257" | "258" | "259" | "322" | "311" | "314" | "352"
    )
}

fn error_class(text: &str) -> (String, Vec<String>) {
    let t = text.trim();
    if t.contains("Closing connection") {
        ("closing".into(), vec![])
    } else if t.contains("Pong timeout") {
        ("pongtimeout".into(), vec![])
    } else if let Some(rest) = t.strip_prefix("User killed by ") {
        let (killer, comment) = match rest.split_once(": ") {
            Some((k, c)) => (k.to_string(), c.to_string()),
            None => (rest.trim_end_matches(':').to_string(), String::new()),
        };
        ("killed".into(), vec![killer, comment])
    } else {
        // every other ERROR line of the server answers an unacceptable line or a refused registration; which wording
        // it uses (wrong parameter, unknown subcommand, parameter count mismatch, mask mismatch ...) is not the
        // business of any listed property, so a rewording must not look like a difference
        ("invalid".into(), vec![])
    }
}

pub fn abstract_line(to: &str, server_name: &str, line: &str) -> Vec<Value> {
    let tok = match tokenize(line) {
        Some(t) => t,
        None => return vec![msg(to, "s", "UNPARSABLE", "", "", vec![line.to_string()])],
    };
    abstract_tok(to, server_name, &tok)
}

pub fn abstract_tok(to: &str, server_name: &str, tok: &Tok) -> Vec<Value> {
    let prefix = tok.prefix.clone().unwrap_or_default();
    let from_server = tok.prefix.is_none() || prefix == server_name;
    let p = &tok.params;
    if !from_server {
        return vec![msg(to, "r", &tok.command.to_ascii_uppercase(), "", &prefix, p.clone())];
    }
    let c = tok.command.as_str();
    let is_num = c.len() == 3 && c.bytes().all(|b| b.is_ascii_digit());
    if !is_num {
        // ERROR (the server also emits the spelling "ERROR:" as command word)
        if c.starts_with("ERROR") {
            let mut text = String::new();
            if c.len() > 5 {
                text.push_str(&c[5..].trim_start_matches(':'));
            }
            for (i, x) in p.iter().enumerate() {
                if i > 0 || !text.is_empty() {
                    text.push(' ');
                }
                text.push_str(x);
            }
            let (class, mut extra) = error_class(&text);
            let mut a = vec![class];
            a.append(&mut extra);
            return vec![msg(to, "s", "ERROR", "", "", a)];
        }
        return vec![msg(to, "s", &c.to_ascii_uppercase(), "", "", p.clone())];
    }
    // the addressee of 433 depends on registration timing (claimed nick vs user/host name)
    let cl = if c == "433" { String::new() } else { p.get(0).cloned().unwrap_or_default() };
    let rest: Vec<String> = p.iter().skip(1).cloned().collect();
    let last = rest.last().cloned().unwrap_or_default();
    let m = |a: Vec<String>| msg(to, "n", c, &cl, "", a);
    match c {
        "001" => {
            // ":Welcome to the <network> Network, <nick>!~<user>@<host>"
            let full = last.rsplit(' ').next().unwrap_or("").to_string();
            let net = last
                .strip_prefix("Welcome to the ")
                .and_then(|s| s.split(" Network").next())
                .unwrap_or("")
                .to_string();
            vec![m(vec![net, full])]
        }
        "002" | "003" | "005" | "391" | "242" | "371" | "374" | "351" | "375" | "376" | "321"
        | "323" => vec![m(vec![])],
        "004" => vec![m(rest.iter().take(1).cloned().collect())],
        "251" => {
            let d = digits(&last);
            vec![m(d.into_iter().take(2).collect())]
        }
        "255" => {
            let d = digits(&last);
            vec![m(d.into_iter().take(1).collect())]
        }
        "265" | "266" => vec![m(rest.iter().take(2).cloned().collect())],
        "353" => {
            // client symbol channel :names
            let sym = rest.get(0).cloned().unwrap_or_default();
            let ch = rest.get(1).cloned().unwrap_or_default();
            let names = rest.get(2).cloned().unwrap_or_default();
            names
                .split(' ')
                .filter(|s| !s.is_empty())
                .map(|n| {
                    // the channel-type symbol (= / @) is not compared
                    let _ = &sym;
                    m(vec![ch.clone(), n.to_string()])
                })
                .collect()
        }
        "319" => {
            let nick = rest.get(0).cloned().unwrap_or_default();
            let chans = rest.get(1).cloned().unwrap_or_default();
            chans
                .split(' ')
                .filter(|s| !s.is_empty())
                .map(|n| m(vec![nick.clone(), n.to_string()]))
                .collect()
        }
        "302" | "303" => {
            let mut out = vec![m(vec![])];
            let item = format!("{}i", c);
            for n in last.split(' ').filter(|s| !s.is_empty()) {
                out.push(msg(to, "n", &item, &cl, "", vec![n.to_string()]));
            }
            out
        }
        "324" => {
            // client channel modestring [key] [limit] {+x arg}*
            let ch = rest.get(0).cloned().unwrap_or_default();
            let mut head = vec![ch.clone()];
            let mut out = vec![];
            let mut i = 1;
            // flags word, then key/limit words up to the first "+x" pair
            if let Some(f) = rest.get(i) {
                head.push(f.clone());
                i += 1;
            }
            while i < rest.len() {
                let w = &rest[i];
                let is_pair = w.len() == 2
                    && w.starts_with('+')
                    && matches!(&w[1..], "b" | "e" | "I" | "q" | "a" | "o" | "h" | "v")
                    && i + 1 < rest.len();
                if is_pair {
                    out.push(msg(
                        to,
                        "n",
                        "324i",
                        &cl,
                        "",
                        vec![ch.clone(), w.clone(), rest[i + 1].clone()],
                    ));
                    i += 2;
                } else {
                    head.push(w.clone());
                    i += 1;
                }
            }
            let mut v = vec![m(head)];
            v.append(&mut out);
            v
        }
        "329" => vec![m(rest.iter().take(1).cloned().collect())],
        "333" => {
            // client channel nick setat  (nick is empty for a configured topic)
            let ch = rest.get(0).cloned().unwrap_or_default();
            let nick = if rest.len() >= 3 { rest[1].clone() } else { String::new() };
            vec![m(vec![ch, nick])]
        }
        "317" => vec![m(rest.iter().take(1).cloned().collect())],
        "367" => {
            // client channel mask who set_ts  (who is empty for a configured ban)
            let ch = rest.get(0).cloned().unwrap_or_default();
            let mask = rest.get(1).cloned().unwrap_or_default();
            let who = if rest.len() >= 4 { rest[2].clone() } else { String::new() };
            vec![m(vec![ch, mask, who])]
        }
        "312" => vec![m(rest.iter().take(2).cloned().collect())],
        "311" | "314" => {
            // client nick ~user host * :realname
            let nick = rest.get(0).cloned().unwrap_or_default();
            let user = rest.get(1).cloned().unwrap_or_default();
            let host = rest.get(2).cloned().unwrap_or_default();
            vec![m(vec![nick, user, host, last])]
        }
        "352" => {
            // client channel ~user host server nick flags :hop realname
            let ch = rest.get(0).cloned().unwrap_or_default();
            let user = rest.get(1).cloned().unwrap_or_default();
            let host = rest.get(2).cloned().unwrap_or_default();
            let nick = rest.get(4).cloned().unwrap_or_default();
            let flags = rest.get(5).cloned().unwrap_or_default();
            let real = last.split_once(' ').map(|x| x.1.to_string()).unwrap_or_default();
            vec![m(vec![ch, user, host, nick, flags, real])]
        }
        // help text lines and per-command statistics are not modelled
        "705" | "212" => vec![],
        "704" | "706" => vec![m(rest.iter().take(1).cloned().collect())],
        "472" => vec![m(rest.iter().take(1).cloned().collect())],
        "400" => vec![m(rest.iter().take(1).cloned().collect())],
        _ => {
            let mut a = rest.clone();
            if tok.has_trailing && !keeps_trailing(c) && !a.is_empty() {
                a.pop();
            }
            vec![m(a)]
        }
    }
}

#[allow(dead_code)]
pub fn vals(v: &[String]) -> Vec<Value> {
    strs(v)
}
