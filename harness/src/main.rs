// Conformance harness: binds the TLA+ specification in /verif/spec to the real
// simple-irc-server.  The server's sources are compiled into this crate by #[path]
// (the repository is a binary-only crate), with the verification hooks enabled by
// --cfg simple_irc_server_verif (see .cargo/config.toml).
#![allow(dead_code, unused_imports, clippy::all)]

#[path = "/repo/src/command.rs"]
mod command;
#[path = "/repo/src/config.rs"]
mod config;
#[path = "/repo/src/help.rs"]
mod help;
#[path = "/repo/src/reply.rs"]
mod reply;
#[path = "/repo/src/state/mod.rs"]
mod state;
#[path = "/repo/src/utils.rs"]
mod utils;

use command::*;
use config::*;
use state::*;
use utils::*;

mod absmsg;
mod conc;
mod core;
mod drive;
mod frames;
mod procs;
mod replay;
mod timers;
mod vectors;
mod wire;

use std::process::exit;

fn usage() -> ! {
    eprintln!(
        "usage: harness <mode> [args]\n\
         modes:\n\
         \x20 replay  <behaviours.ndjson> <out.ndjson> [--workers N]   spec -> code\n\
         \x20 drive   <out.ndjson> --seed S --steps N [--profile P]     code -> spec (sequential recording)\n\
         \x20 conc    <out.ndjson> --seed S --rounds N [--workers W]     code -> spec (concurrent rounds)\n\
         \x20 vectors <kind> <in.ndjson> <out.ndjson>                   pure-function conformance\n\
         \x20 vecchild                                                  (internal) child of vectors\n\
         \x20 timers  <out.ndjson> [--grid quick|thorough]              keep-alive runs in real time\n\
         \x20 procs   <in.ndjson> <out.ndjson> --bin <server binary>    start-up validation runs\n\
         \x20 genhash <password>                                        the code's own password hash"
    );
    exit(2)
}

fn main() {
    // RUST_BACKTRACE is set in this sandbox; panics of the code under test are data, not noise
    std::env::set_var("RUST_BACKTRACE", "0");
    let args: Vec<String> = std::env::args().collect();
    if args.len() < 2 {
        usage();
    }
    core::install_panic_hook();
    let code = match args[1].as_str() {
        "replay" => replay::main(&args[2..]),
        "drive" => drive::main(&args[2..]),
        "conc" => conc::main(&args[2..]),
        "vectors" => vectors::main(&args[2..]),
        "frames" => frames::main(&args[2..]),
        "vecchild" => vectors::child_main(),
        "timers" => timers::main(&args[2..]),
        "procs" => procs::main(&args[2..]),
        "genhash" => {
            println!("{}", argon2_hash_password(&args[2]));
            0
        }
        _ => usage(),
    };
    exit(code)
}
