// C13 framing runs: a registered connection sends a byte stream cut into chunks (hex), an
// observer watches; the harness reports what both received.  Expectations are computed
// outside (bin/special.py) from the Framer specification's semantics.
//
// in : {"id":..,"chunks":["hex",..],"wait_eof":bool}
// out: {"id":..,"tester":[abstract msgs],"observer":[abstract msgs],"raw_crlf_ok":bool,"issue":[..],"panics":[..]}

use crate::core::*;
use crate::drive::cmd;
use serde_json::{json, Value};
use std::io::{BufRead, BufReader, BufWriter, Write};
use std::time::Duration;

const T: &str = "127.0.0.1";
const O: &str = "127.0.0.2";

async fn run_one(t: &Value) -> Value {
    let cfg = normalize_cfg(&json!({}));
    let mut s = Session::start(&cfg).await;
    take_panics();
    let mut issues: Vec<String> = vec![];
    for (c, n, u) in [(T, "tester", "u1"), (O, "obs", "u2")] {
        for cm in [
            cmd("!open", vec![]),
            cmd("NICK", vec![vec![n.to_string()]]),
            cmd("USER", vec![vec![u.to_string()], vec!["R".to_string()]]),
        ] {
            let (_, i) = s.step(c, &cm).await;
            issues.extend(i);
        }
    }
    let empty = vec![];
    for ch in t["chunks"].as_array().unwrap_or(&empty) {
        let hex = ch.as_str().unwrap_or("");
        let data: Vec<u8> = (0..hex.len() / 2)
            .filter_map(|i| u8::from_str_radix(&hex[2 * i..2 * i + 2], 16).ok())
            .collect();
        if s.send_bytes(T, &data).await.is_err() {
            break;
        }
        // let the server's reader see this chunk on its own
        tokio::time::sleep(Duration::from_millis(2)).await;
    }
    if t["close_after"].as_bool().unwrap_or(false) {
        s.half_close(T).await;
    }
    if let Err(StepIssue::Watchdog(w)) = s.quiesce(Duration::from_millis(2500)).await {
        issues.push(w);
    }
    let outs = match s.collect(Duration::from_millis(2500)).await {
        Ok(o) => o,
        Err(StepIssue::Watchdog(w)) => {
            issues.push(w);
            vec![]
        }
    };
    let raw_ok = s.clients.get(T).map(|c| c.raw_ok).unwrap_or(true) && s.clients.get(O).map(|c| c.raw_ok).unwrap_or(true);
    let tester: Vec<Value> = outs.iter().filter(|m| m["to"] == T).cloned().collect();
    let observer: Vec<Value> = outs.iter().filter(|m| m["to"] == O).cloned().collect();
    let snap = s.snapshot().await;
    let panics = take_panics();
    s.stop().await;
    json!({"id": t["id"], "tester": tester, "observer": observer, "raw_crlf_ok": raw_ok,
           "tester_registered": !snap["users"]["tester"].is_null(), "issue": issues, "panics": panics})
}

pub fn main(args: &[String]) -> i32 {
    if args.len() < 2 {
        eprintln!("frames <in.ndjson> <out.ndjson>");
        return 2;
    }
    let base: u16 = arg_val(args, "--port-base").and_then(|s| s.parse().ok()).unwrap_or(26000);
    set_port_base(base);
    let f = std::fs::File::open(&args[0]).expect("open");
    let mut w = BufWriter::new(std::fs::File::create(&args[1]).expect("create"));
    let rt = runtime(2);
    for l in BufReader::new(f).lines() {
        let l = l.unwrap();
        if l.trim().is_empty() {
            continue;
        }
        let t: Value = serde_json::from_str(&l).expect("json");
        let r = rt.block_on(run_one(&t));
        writeln!(w, "{}", r).unwrap();
    }
    w.flush().unwrap();
    0
}
