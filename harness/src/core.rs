// Core of the harness: configuration building, in-process server, client sockets,
// hook-based quiescence, step execution and recording.

use crate::absmsg::abstract_line;
use std::convert::TryFrom;
use crate::config::*;
use crate::state::verif;
use crate::state::*;
use crate::utils::argon2_hash_password;
use crate::wire;
use serde_json::{json, Map, Value};
use std::collections::{BTreeMap, HashMap, HashSet};
use std::net::SocketAddr;
use std::sync::atomic::{AtomicU16, Ordering};
use std::sync::{Arc, Mutex};
use std::time::{Duration, Instant};
use tokio::io::{AsyncReadExt, AsyncWriteExt};
use tokio::net::{TcpSocket, TcpStream};
use tokio::task::JoinHandle;

lazy_static::lazy_static! {
    pub static ref PANICS: Mutex<Vec<String>> = Mutex::new(vec![]);
    static ref HASHES: Mutex<HashMap<String, String>> = Mutex::new(HashMap::new());
}

pub fn install_panic_hook() {
    std::panic::set_hook(Box::new(|info| {
        let loc = info
            .location()
            .map(|l| format!("{}:{}", l.file(), l.line()))
            .unwrap_or_default();
        let msg = if let Some(s) = info.payload().downcast_ref::<&str>() {
            s.to_string()
        } else if let Some(s) = info.payload().downcast_ref::<String>() {
            s.clone()
        } else {
            "<non-string panic>".to_string()
        };
        // a panic in the harness itself is a tool error and must be visible
        if !loc.starts_with("/repo/") {
            eprintln!("HARNESS PANIC: {} @ {}", msg, loc);
        }
        if let Ok(mut p) = PANICS.lock() {
            p.push(format!("{} @ {}", msg, loc));
        }
        verif::NOTIFY.notify_waiters();
    }));
}

// Ask the kernel to acknowledge received segments at once.  The server does not set
// TCP_NODELAY, so a second small write to a client whose kernel is still delaying the
// ACK of the first one would sit in the server's socket for ~40 ms (Nagle x delayed ACK).
pub fn quickack(s: &TcpStream) {
    use std::os::unix::io::AsRawFd;
    quickack_fd(s.as_raw_fd());
}

pub fn quickack_fd(fd: i32) {
    let one: libc::c_int = 1;
    unsafe {
        libc::setsockopt(
            fd,
            libc::IPPROTO_TCP,
            libc::TCP_QUICKACK,
            &one as *const _ as *const libc::c_void,
            std::mem::size_of::<libc::c_int>() as libc::socklen_t,
        );
    }
}

pub fn take_panics() -> Vec<String> {
    std::mem::take(&mut *PANICS.lock().unwrap())
}

pub fn hash_of(pw: &str) -> String {
    let mut h = HASHES.lock().unwrap();
    if let Some(x) = h.get(pw) {
        return x.clone();
    }
    let x = argon2_hash_password(pw);
    h.insert(pw.to_string(), x.clone());
    x
}

fn sarr(v: &Value) -> Vec<String> {
    v.as_array()
        .map(|a| a.iter().filter_map(|x| x.as_str().map(|s| s.to_string())).collect())
        .unwrap_or_default()
}

fn sopt(v: &Value) -> Option<String> {
    match v {
        Value::String(s) => Some(s.clone()),
        Value::Array(a) => a.get(0).and_then(|x| x.as_str()).map(|s| s.to_string()),
        _ => None,
    }
}

fn nopt(v: &Value) -> Option<usize> {
    match v {
        Value::Number(n) => n.as_u64().map(|x| x as usize),
        Value::Array(a) => a.get(0).and_then(|x| x.as_u64()).map(|x| x as usize),
        _ => None,
    }
}

fn hset(v: &Value) -> Option<HashSet<String>> {
    let a = sarr(v);
    if a.is_empty() {
        None
    } else {
        Some(a.into_iter().collect())
    }
}

// Build the server configuration from the abstract configuration record shared with the
// specification (spec/IrcTypes.tla, Cfg).  Passwords are given in clear and hashed with
// the code's own routine (what `-g` prints).
pub fn build_config(cfg: &Value, port: u16) -> MainConfig {
    let mut c = MainConfig::default();
    c.listen = "127.0.0.1".parse().unwrap();
    if let Some(l) = cfg["listen"].as_str() {
        c.listen = l.parse().unwrap();
    }
    c.port = port;
    c.dns_lookup = cfg["dns"].as_bool().unwrap_or(false);
    c.name = cfg["name"].as_str().unwrap_or("irc.irc").to_string();
    c.network = cfg["network"].as_str().unwrap_or("IRCnetwork").to_string();
    c.motd = cfg["motd"].as_str().unwrap_or("Hello, world!").to_string();
    if let Some(a) = cfg["admin_info"].as_str() {
        c.admin_info = a.to_string();
    }
    c.admin_info2 = sopt(&cfg["admin_info2"]);
    c.admin_email = sopt(&cfg["admin_email"]);
    c.ping_timeout = cfg["ping"].as_u64().unwrap_or(3600);
    c.pong_timeout = cfg["pong"].as_u64().unwrap_or(3600);
    c.password = sopt(&cfg["password"]).map(|p| hash_of(&p));
    if cfg["tls"].as_bool().unwrap_or(false) {
        c.tls = Some(TLSConfig {
            cert_file: "/repo/test_data/cert.crt".to_string(),
            cert_key_file: "/repo/test_data/cert_key.crt".to_string(),
        });
    }
    c.max_joins = nopt(&cfg["max_joins"]);
    c.max_connections = nopt(&cfg["max_connections"]);
    let dm = sarr(&cfg["default_modes"]);
    c.default_user_modes = UserModes {
        invisible: dm.iter().any(|x| x == "i"),
        oper: dm.iter().any(|x| x == "o"),
        local_oper: dm.iter().any(|x| x == "O"),
        registered: dm.iter().any(|x| x == "r"),
        wallops: dm.iter().any(|x| x == "w"),
    };
    if let Some(ops) = cfg["operators"].as_array() {
        if !ops.is_empty() {
            c.operators = Some(
                ops.iter()
                    .map(|o| OperatorConfig {
                        name: o["name"].as_str().unwrap_or("").to_string(),
                        password: hash_of(o["pass"].as_str().unwrap_or("")),
                        mask: sopt(&o["mask"]),
                    })
                    .collect(),
            );
        }
    }
    if let Some(us) = cfg["users"].as_array() {
        if !us.is_empty() {
            c.users = Some(
                us.iter()
                    .map(|u| UserConfig {
                        name: u["name"].as_str().unwrap_or("").to_string(),
                        nick: u["nick"].as_str().unwrap_or("x").to_string(),
                        password: sopt(&u["pass"]).map(|p| hash_of(&p)),
                        mask: sopt(&u["mask"]),
                    })
                    .collect(),
            );
        }
    }
    if let Some(chs) = cfg["channels"].as_array() {
        if !chs.is_empty() {
            c.channels = Some(
                chs.iter()
                    .map(|ch| {
                        let fl = sarr(&ch["flags"]);
                        ChannelConfig {
                            name: ch["name"].as_str().unwrap_or("").to_string(),
                            topic: sopt(&ch["topic"]),
                            modes: ChannelModes {
                                ban: hset(&ch["ban"]),
                                exception: hset(&ch["exc"]),
                                client_limit: nopt(&ch["limit"]),
                                invite_exception: hset(&ch["invex"]),
                                key: sopt(&ch["key"]),
                                operators: hset(&ch["o"]),
                                half_operators: hset(&ch["h"]),
                                voices: hset(&ch["v"]),
                                founders: hset(&ch["q"]),
                                protecteds: hset(&ch["a"]),
                                invite_only: fl.iter().any(|x| x == "i"),
                                moderated: fl.iter().any(|x| x == "m"),
                                secret: fl.iter().any(|x| x == "s"),
                                protected_topic: fl.iter().any(|x| x == "t"),
                                no_external_messages: fl.iter().any(|x| x == "n"),
                            },
                        }
                    })
                    .collect(),
            );
        }
    }
    c
}

// the configuration record with every field present (what the specification reads)
pub fn normalize_cfg(cfg: &Value) -> Value {
    let o = |v: &Value| -> Value {
        match v {
            Value::Null => json!([]),
            Value::Array(_) => v.clone(),
            x => json!([x.clone()]),
        }
    };
    let arr = |v: &Value| -> Value {
        match v {
            Value::Array(_) => v.clone(),
            _ => json!([]),
        }
    };
    let ops: Vec<Value> = cfg["operators"]
        .as_array()
        .map(|a| {
            a.iter()
                .map(|x| json!({"name": x["name"], "pass": x["pass"], "mask": o(&x["mask"])}))
                .collect()
        })
        .unwrap_or_default();
    let us: Vec<Value> = cfg["users"]
        .as_array()
        .map(|a| {
            a.iter()
                .map(|x| {
                    json!({"name": x["name"], "nick": x["nick"].as_str().unwrap_or("x"),
                           "pass": o(&x["pass"]), "mask": o(&x["mask"])})
                })
                .collect()
        })
        .unwrap_or_default();
    let chs: Vec<Value> = cfg["channels"]
        .as_array()
        .map(|a| {
            a.iter()
                .map(|x| {
                    json!({"name": x["name"], "topic": o(&x["topic"]), "flags": arr(&x["flags"]),
                           "key": o(&x["key"]), "limit": o(&x["limit"]), "ban": arr(&x["ban"]),
                           "exc": arr(&x["exc"]), "invex": arr(&x["invex"]), "q": arr(&x["q"]),
                           "a": arr(&x["a"]), "o": arr(&x["o"]), "h": arr(&x["h"]), "v": arr(&x["v"])})
                })
                .collect()
        })
        .unwrap_or_default();
    json!({
        "name": cfg["name"].as_str().unwrap_or("irc.irc"),
        "network": cfg["network"].as_str().unwrap_or("IRCnetwork"),
        "motd": cfg["motd"].as_str().unwrap_or("Hello, world!"),
        "admin_info": cfg["admin_info"].as_str().unwrap_or("ircadmin is IRC admin"),
        "admin_info2": o(&cfg["admin_info2"]),
        "admin_email": o(&cfg["admin_email"]),
        "password": o(&cfg["password"]),
        "max_joins": o(&cfg["max_joins"]),
        "max_connections": o(&cfg["max_connections"]),
        "default_modes": arr(&cfg["default_modes"]),
        "tls": cfg["tls"].as_bool().unwrap_or(false),
        "dns": cfg["dns"].as_bool().unwrap_or(false),
        "ping": cfg["ping"].as_u64().unwrap_or(3600),
        "pong": cfg["pong"].as_u64().unwrap_or(3600),
        "operators": ops, "users": us, "channels": chs
    })
}

static NEXT_PORT: AtomicU16 = AtomicU16::new(0);

pub fn set_port_base(base: u16) {
    NEXT_PORT.store(base, Ordering::SeqCst);
}

pub trait Duplex: tokio::io::AsyncRead + tokio::io::AsyncWrite + Unpin + Send {}
impl<T: tokio::io::AsyncRead + tokio::io::AsyncWrite + Unpin + Send> Duplex for T {}

pub struct Client {
    pub id: String, // conn id = local address 127.0.0.K
    pub local: String,
    pub stream: Option<Box<dyn Duplex>>,
    pub fd: i32,
    pub counted: bool,        // accepted_seen already updated for this connection
    pub key: String,          // registry key "<addr>#<n>" this connection gets if it is accepted
    pub refused_before: u64,  // refusals of this address seen before this connection was opened
    pub rbuf: Vec<u8>,
    pub sent_lines: u64,
    pub read_lines: u64,
    pub eof: bool,
    pub half_closed: bool,
    pub noread: bool,
    pub raw_ok: bool, // every line so far ended in CR LF
    pub dns_released: u64, // answers of the (fake) name service released for this connection
}

pub struct Session {
    pub main: Arc<MainState>,
    pub handle: JoinHandle<()>,
    pub port: u16,
    pub server_name: String,
    pub clients: BTreeMap<String, Client>,
    pub retired: Vec<String>, // peer keys of connections already observed ended
    pub tls: bool,
    pub accepted_seen: HashMap<String, u64>, // per client address: connections of ours the server accepted so far
    pub last_snap: Option<Value>, // the last snapshot that could be taken
}

#[derive(Debug)]
pub enum StepIssue {
    Watchdog(String),
}

impl Session {
    pub async fn start(cfg: &Value) -> Session {
        verif::reset();
        verif::FAKE_DNS.store(cfg["dns"].as_bool().unwrap_or(false), std::sync::atomic::Ordering::SeqCst);
        let tls = cfg["tls"].as_bool().unwrap_or(false);
        let mut tries = 0;
        loop {
            // a port the kernel says is free right now (the fixed ranges of earlier versions ran into
            // each other once a shard replays thousands of behaviours)
            let port = match std::net::TcpListener::bind("127.0.0.1:0").and_then(|l| l.local_addr()) {
                Ok(a) => a.port(),
                Err(_) => {
                    let p = NEXT_PORT.fetch_add(1, Ordering::SeqCst);
                    if p < 1024 { 21000 } else { p }
                }
            };
            let config = build_config(cfg, port);
            let name = config.name.clone();
            match run_server(config).await {
                Ok((main, handle)) => {
                    return Session {
                        main,
                        handle,
                        port,
                        server_name: name,
                        clients: BTreeMap::new(),
                        retired: vec![],
                        tls,
                        accepted_seen: HashMap::new(),
                        last_snap: None,
                    }
                }
                Err(e) => {
                    tries += 1;
                    if tries > 200 {
                        panic!("cannot start server: {}", e);
                    }
                }
            }
        }
    }

    pub async fn stop(mut self) {
        for (_, c) in self.clients.iter_mut() {
            // abortive close: thousands of sessions per minute must not pile up in TIME_WAIT
            // (the ephemeral ports of 127.0.0.K are a finite resource)
            if c.stream.is_some() {
                let lg = libc::linger { l_onoff: 1, l_linger: 0 };
                unsafe {
                    libc::setsockopt(
                        c.fd,
                        libc::SOL_SOCKET,
                        libc::SO_LINGER,
                        &lg as *const _ as *const libc::c_void,
                        std::mem::size_of::<libc::linger>() as libc::socklen_t,
                    );
                }
            }
            c.stream = None;
        }
        // let the connection tasks see EOF and finish
        let deadline = Instant::now() + Duration::from_millis(500);
        loop {
            let notified = verif::NOTIFY.notified();
            tokio::pin!(notified);
            notified.as_mut().enable();
            let done = {
                let reg = verif::REG.lock().unwrap();
                reg.conns.values().all(|r| r.dropped)
            };
            if done || Instant::now() > deadline {
                break;
            }
            let _ = tokio::time::timeout(Duration::from_millis(20), notified).await;
        }
        self.handle.abort();
        let _ = self.handle.await;
    }

    pub async fn open(&mut self, id: &str) -> Result<(), String> {
        // A port of the client's own loopback address.  Orderly closes by the client leave its end in TIME_WAIT for a
        // minute, and under the thorough tier's load the kernel's ephemeral range of one address can run out
        // ("Address already in use" at bind): then ports below the ephemeral range are tried, and if need be we wait.
        let mut sock = TcpSocket::new_v4().map_err(|e| e.to_string())?;
        let mut bound_ok = false;
        let mut last_err = String::new();
        'outer: for attempt in 0..120u32 {
            let local: SocketAddr = format!("{}:0", id).parse().map_err(|_| "bad id".to_string())?;
            match sock.bind(local) {
                Ok(()) => {
                    bound_ok = true;
                    break;
                }
                Err(e) => last_err = e.to_string(),
            }
            for _ in 0..30 {
                let p: u16 = 1100 + (rand::random::<u16>() % 31000);
                sock = TcpSocket::new_v4().map_err(|e| e.to_string())?;
                let local: SocketAddr = format!("{}:{}", id, p).parse().map_err(|_| "bad id".to_string())?;
                if sock.bind(local).is_ok() {
                    bound_ok = true;
                    break 'outer;
                }
            }
            sock = TcpSocket::new_v4().map_err(|e| e.to_string())?;
            if attempt > 0 {
                tokio::time::sleep(Duration::from_millis(500)).await;
            }
        }
        if !bound_ok {
            return Err(format!("no local port: {}", last_err));
        }
        // the address is known before the server can see the connection: read the counters now
        let bound = sock.local_addr().map_err(|e| e.to_string())?.to_string();
        let (refused_before_open, accepted_before_open) = {
            let reg = verif::REG.lock().unwrap();
            (reg.refused.get(&bound).cloned().unwrap_or(0), reg.accepted.get(&bound).cloned().unwrap_or(0))
        };
        let dest: SocketAddr = format!("127.0.0.1:{}", self.port).parse().unwrap();
        let stream = sock.connect(dest).await.map_err(|e| e.to_string())?;
        stream.set_nodelay(true).ok();
        quickack(&stream);
        let local = stream.local_addr().map_err(|e| e.to_string())?.to_string();
        let fd = {
            use std::os::unix::io::AsRawFd;
            stream.as_raw_fd()
        };
        let stream: Box<dyn Duplex> = if self.tls {
            match tls_connect(stream).await {
                Ok(t) => Box::new(t),
                Err(e) => return Err(format!("tls: {}", e)),
            }
        } else {
            Box::new(stream)
        };
        if let Some(old) = self.clients.remove(id) {
            self.retired.push(old.local);
        }
        self.clients.insert(
            id.to_string(),
            Client {
                id: id.to_string(),
                counted: false,
                // the server numbers the accepted connections of an address: ours is the next one
                key: format!("{}#{}", local, accepted_before_open),
                refused_before: refused_before_open,
                local,
                stream: Some(stream),
                fd,
                rbuf: vec![],
                sent_lines: 0,
                read_lines: 0,
                eof: false,
                half_closed: false,
                noread: false,
                raw_ok: true,
                dns_released: 0,
            },
        );
        Ok(())
    }

    pub async fn send_bytes(&mut self, id: &str, data: &[u8]) -> Result<(), String> {
        let c = self.clients.get_mut(id).ok_or("no such client")?;
        let nl = data.iter().filter(|b| **b == b'\n').count() as u64;
        if let Some(s) = c.stream.as_mut() {
            match s.write_all(data).await {
                Ok(()) => {
                    c.sent_lines += nl;
                    Ok(())
                }
                Err(e) => Err(e.to_string()),
            }
        } else {
            Err("closed".into())
        }
    }

    pub async fn send_line(&mut self, id: &str, line: &str) -> Result<(), String> {
        let mut d = line.as_bytes().to_vec();
        d.extend_from_slice(b"\r\n");
        self.send_bytes(id, &d).await
    }

    // close the client's socket: orderly (FIN) or abortive (RST via SO_LINGER 0)
    pub async fn close(&mut self, id: &str, rst: bool) {
        if let Some(c) = self.clients.get_mut(id) {
            if let Some(s) = c.stream.take() {
                if rst {
                    let lg = libc::linger { l_onoff: 1, l_linger: 0 };
                    unsafe {
                        libc::setsockopt(
                            c.fd,
                            libc::SOL_SOCKET,
                            libc::SO_LINGER,
                            &lg as *const _ as *const libc::c_void,
                            std::mem::size_of::<libc::linger>() as libc::socklen_t,
                        );
                    }
                }
                drop(s);
            }
            c.half_closed = true;
            c.eof = true;
        }
    }

    // orderly shutdown of the sending direction only: the client keeps reading
    pub async fn half_close(&mut self, id: &str) {
        if let Some(c) = self.clients.get_mut(id) {
            if let Some(s) = c.stream.as_mut() {
                let _ = s.shutdown().await;
            }
            c.half_closed = true;
        }
    }

    // Wait until the server has nothing left to do: every connection has consumed and
    // answered what was written to it, every queued line is delivered (or dropped with
    // its ended receiver) and every KILL/DIE signal is handled.  No sleeping on guesses:
    // the hooks notify; the watchdog is the only timer.
    pub async fn quiesce(&mut self, watchdog: Duration) -> Result<(), StepIssue> {
        let deadline = Instant::now() + watchdog;
        loop {
            let notified = verif::NOTIFY.notified();
            tokio::pin!(notified);
            notified.as_mut().enable();
            let why = self.not_quiescent();
            if why.is_none() {
                // remember which of our connections the server has accepted (numbering of registry keys)
                let reg = verif::REG.lock().unwrap();
                for c in self.clients.values_mut() {
                    if !c.counted && reg.conns.contains_key(&c.key) {
                        c.counted = true;
                        *self.accepted_seen.entry(c.local.clone()).or_insert(0) += 1;
                    }
                }
                return Ok(());
            }
            let now = Instant::now();
            if now >= deadline {
                return Err(StepIssue::Watchdog(why.unwrap()));
            }
            let _ = tokio::time::timeout(
                std::cmp::min(deadline - now, Duration::from_millis(50)),
                notified,
            )
            .await;
        }
    }

    fn not_quiescent(&self) -> Option<String> {
        let reg = verif::REG.lock().unwrap();
        // connections whose client does not read are exempt: their task may sit in a flush for ever
        let exempt: std::collections::HashSet<&String> =
            self.clients.values().filter(|c| c.noread && !c.half_closed).map(|c| &c.key).collect();
        for (key, r) in reg.conns.iter() {
            if exempt.contains(key) || r.dropped {
                continue;
            }
            if r.quit && !r.ended {
                return Some("connection quitting, not yet ended".into());
            }
            if r.ended && !r.dropped {
                return Some("connection ended, slot not yet released".into());
            }
            if !r.ended {
                if r.q_done + r.q_dropped < r.enq {
                    return Some(format!("{}: {} of {} queued lines delivered", key, r.q_done + r.q_dropped, r.enq));
                }
                if r.kills_done + r.kills_lost < r.sigs {
                    return Some(format!("{}: signal pending", key));
                }
            }
        }
        for (id, c) in self.clients.iter() {
            match reg.conns.get(&c.key) {
                None => {
                    if reg.refused.get(&c.local).cloned().unwrap_or(0) <= c.refused_before {
                        return Some(format!("{}: not yet accepted", id));
                    }
                }
                Some(r) => {
                    if r.ended || r.dropped || (c.noread && !c.half_closed) {
                        continue;
                    }
                    if c.half_closed {
                        return Some(format!("{}: closed by client, not yet ended", id));
                    }
                    if r.dns_done < c.dns_released {
                        return Some(format!("{}: name service answer not yet handled", id));
                    }
                    if r.lines_done < c.sent_lines {
                        return Some(format!("{}: {} of {} lines done", id, r.lines_done, c.sent_lines));
                    }
                }
            }
        }
        None
    }

    // Make the connection `victim` a stalled one: its client stops reading and `flooder` sends it
    // messages until the server-side task of `victim` is observed blocked in a flush.
    pub async fn stall(&mut self, victim: &str, flooder: &str) -> Result<(), String> {
        let vnick = {
            let snap = self.snapshot().await;
            snap["conns"][victim]["nick"][0].as_str().unwrap_or("").to_string()
        };
        if vnick.is_empty() {
            return Err("victim not registered".into());
        }
        let vlocal = self.clients.get(victim).map(|c| c.key.clone()).ok_or("no victim")?;
        if let Some(c) = self.clients.get_mut(victim) {
            c.noread = true;
        }
        if flooder == victim {
            // the victim itself asks for long replies (hundreds of lines each) and never reads them: its task ends up
            // blocked writing to the full socket, with input of its own still unread
            let line = format!("NAMES {}\r\n", vec!["#x"; 600].join(","));
            let batch: Vec<u8> = line.as_bytes().iter().cycle().take(line.len() * 40).cloned().collect();
            for _ in 0..200 {
                match tokio::time::timeout(Duration::from_millis(400), self.send_bytes(victim, &batch)).await {
                    Err(_) => return Ok(()), // our own write blocks: the server no longer reads this socket
                    Ok(Err(e)) => return Err(format!("send: {}", e)),
                    Ok(Ok(())) => {}
                }
                tokio::time::sleep(Duration::from_millis(30)).await;
                let now = std::time::SystemTime::now().duration_since(std::time::UNIX_EPOCH).map(|d| d.as_micros() as u64).unwrap_or(0);
                let reg = verif::REG.lock().unwrap();
                if let Some(r) = reg.conns.get(&vlocal) {
                    if r.in_flush_since_us != 0 && now.saturating_sub(r.in_flush_since_us) > 100_000 {
                        return Ok(());
                    }
                }
            }
            return Err("could not stall the victim by its own requests".into());
        }
        let line = format!("PRIVMSG {} :{}\r\n", vnick, "x".repeat(1900));
        let batch: Vec<u8> = line.as_bytes().iter().cycle().take(line.len() * 400).cloned().collect();
        for _ in 0..120 {
            self.send_bytes(flooder, &batch).await?;
            if let Err(StepIssue::Watchdog(w)) = self.quiesce(Duration::from_millis(4000)).await {
                return Err(format!("watchdog while flooding: {}", w));
            }
            // blocked = a flush of the victim's task has been pending for 100 ms
            tokio::time::sleep(Duration::from_millis(120)).await;
            let now = std::time::SystemTime::now().duration_since(std::time::UNIX_EPOCH).map(|d| d.as_micros() as u64).unwrap_or(0);
            let reg = verif::REG.lock().unwrap();
            if let Some(r) = reg.conns.get(&vlocal) {
                if r.in_flush_since_us != 0 && now.saturating_sub(r.in_flush_since_us) > 100_000 {
                    return Ok(());
                }
            }
        }
        Err("could not stall the victim".into())
    }

    // read from every socket exactly what the server wrote to it
    pub async fn collect(&mut self, watchdog: Duration) -> Result<Vec<Value>, StepIssue> {
        let mut targets: Vec<(String, u64, bool)> = vec![];
        {
            let reg = verif::REG.lock().unwrap();
            for (id, c) in self.clients.iter() {
                if c.noread {
                    continue;
                }
                if let Some(r) = reg.conns.get(&c.key) {
                    targets.push((id.clone(), r.written, r.ended || r.dropped));
                } else if reg.refused.get(&c.local).cloned().unwrap_or(0) > c.refused_before {
                    targets.push((id.clone(), 0, true));
                }
            }
        }
        let mut out = vec![];
        let server_name = self.server_name.clone();
        for (id, written, over) in targets {
            let c = self.clients.get_mut(&id).unwrap();
            let deadline = Instant::now() + watchdog;
            loop {
                // extract complete lines
                while let Some(pos) = c.rbuf.iter().position(|b| *b == b'\n') {
                    let mut line: Vec<u8> = c.rbuf.drain(..=pos).collect();
                    line.pop();
                    if line.last() == Some(&b'\r') {
                        line.pop();
                    } else {
                        c.raw_ok = false;
                    }
                    c.read_lines += 1;
                    let text = String::from_utf8_lossy(&line).to_string();
                    out.extend(abstract_line(&id, &server_name, &text));
                }
                if c.read_lines >= written && !over {
                    break;
                }
                if c.eof && c.stream.is_none() {
                    break;
                }
                if c.stream.is_none() {
                    break;
                }
                let mut buf = [0u8; 16384];
                let s = c.stream.as_mut().unwrap();
                let left = deadline.saturating_duration_since(Instant::now());
                if left.is_zero() {
                    return Err(StepIssue::Watchdog(format!(
                        "{}: read {} of {} lines",
                        id, c.read_lines, written
                    )));
                }
                match tokio::time::timeout(left, s.read(&mut buf)).await {
                    Ok(Ok(0)) => {
                        c.eof = true;
                        c.stream = None;
                        out.push(json!({"to": id, "k": "s", "c": "EOF", "cl": "", "src": "", "a": []}));
                    }
                    Ok(Ok(n)) => {
                        c.rbuf.extend_from_slice(&buf[..n]);
                        if c.stream.is_some() {
                            quickack_fd(c.fd);
                        }
                    }
                    Ok(Err(_)) => {
                        c.eof = true;
                        c.stream = None;
                        out.push(json!({"to": id, "k": "s", "c": "EOF", "cl": "", "src": "", "a": []}));
                    }
                    Err(_) => {
                        return Err(StepIssue::Watchdog(format!(
                            "{}: read {} of {} lines",
                            id, c.read_lines, written
                        )))
                    }
                }
            }
        }
        Ok(out)
    }

    // the state as the specification sees it: the hook's projection with the
    // connection records keyed by connection id (= client address)
    pub async fn snapshot(&mut self) -> Value {
        // the projection needs the state lock (shared); if a handler sits on the lock for good (the server is
        // wedged) the last state that could be read is returned, marked "blocked"
        let raw = match tokio::time::timeout(Duration::from_secs(8), self.main.verif_snapshot()).await {
            Ok(r) => r,
            Err(_) => {
                let mut v = self.last_snap.clone().unwrap_or_else(|| json!({"conns": {}, "dead": []}));
                v["blocked"] = Value::Bool(true);
                return v;
            }
        };
        let v = self.project(&raw);
        self.last_snap = Some(v.clone());
        v
    }

    fn project(&mut self, raw: &str) -> Value {
        let mut v: Value = serde_json::from_str(raw).expect("snapshot json");
        let conns = v["conns"].as_object().cloned().unwrap_or_default();
        let mut out = Map::new();
        let mut dead = vec![];
        for (id, c) in self.clients.iter() {
            if let Some(r) = conns.get(&c.key) {
                let ended = r["ended"].as_bool().unwrap_or(false);
                let dropped = r["dropped"].as_bool().unwrap_or(false);
                if ended {
                    continue;
                }
                if dropped {
                    dead.push(Value::String(id.clone()));
                    continue;
                }
                let mut m = Map::new();
                for k in [
                    "nick", "uname", "real", "pass", "src", "authed", "cfgreg", "capneg", "mp",
                    "hasq", "quit",
                ] {
                    m.insert(k.to_string(), r[k].clone());
                }
                m.insert("stalled".to_string(), Value::Bool(c.noread));
                out.insert(id.clone(), Value::Object(m));
            }
        }
        v["conns"] = Value::Object(out);
        v["dead"] = Value::Array(dead);
        // drop fields the specification does not model
        if let Some(us) = v["users"].as_object_mut() {
            for (_, u) in us.iter_mut() {
                if let Some(o) = u.as_object_mut() {
                    o.remove("qclosed");
                }
            }
        }
        v
    }

    pub fn retire_ended(&mut self) {
        let reg = verif::REG.lock().unwrap();
        let ids: Vec<String> = self
            .clients
            .iter()
            .filter(|(_, c)| {
                reg.conns
                    .get(&c.key)
                    .map(|r| r.ended || r.dropped)
                    .unwrap_or(reg.refused.get(&c.local).cloned().unwrap_or(0) > c.refused_before)
                    && c.stream.is_none()
            })
            .map(|(id, _)| id.clone())
            .collect();
        drop(reg);
        for id in ids {
            if let Some(c) = self.clients.remove(&id) {
                self.retired.push(c.local);
            }
        }
    }

    // Execute one abstract step: a protocol command or a fault on connection `id`.
    // Returns the abstract messages every socket received as a consequence.
    pub async fn step(&mut self, id: &str, cmd: &Value) -> (Vec<Value>, Option<String>) {
        let verb = wire::verb(cmd);
        let wd = Duration::from_millis(2500);
        let mut issue = None;
        match verb.as_str() {
            "!open" => {
                let mut tries = 0;
                loop {
                    match self.open(id).await {
                        Ok(()) => break,
                        Err(e) if tries < 4 && (e.contains("Address") || e.contains("address")) => {
                            // a local port clash (4-tuple still in TIME_WAIT): take another port
                            tries += 1;
                            tokio::time::sleep(Duration::from_millis(100)).await;
                        }
                        Err(e) => {
                            issue = Some(format!("open failed: {}", e));
                            break;
                        }
                    }
                }
            }
            "!close" => self.close(id, false).await,
            "!rst" => self.close(id, true).await,
            "!half" => {
                // an unterminated tail, then an orderly close
                let p = wire::groups(cmd);
                let tail = p.get(0).and_then(|g| g.get(0)).cloned().unwrap_or_default();
                let _ = self.send_bytes(id, tail.as_bytes()).await;
                self.close(id, false).await;
            }
            "!bytes" => {
                // raw bytes given as hex
                let p = wire::groups(cmd);
                let hex = p.get(0).and_then(|g| g.get(0)).cloned().unwrap_or_default();
                let data: Vec<u8> = (0..hex.len() / 2)
                    .filter_map(|i| u8::from_str_radix(&hex[2 * i..2 * i + 2], 16).ok())
                    .collect();
                let _ = self.send_bytes(id, &data).await;
            }
            "!dns" => {
                // the reverse lookup of this connection completes now (the answer is its address)
                let key = self.clients.get(id).map(|c| c.key.clone()).unwrap_or_default();
                if verif::dns_release(&key) {
                    if let Some(c) = self.clients.get_mut(id) {
                        c.dns_released += 1;
                    }
                } else {
                    issue = Some("no pending lookup for this connection".to_string());
                }
            }
            "!noread" => {
                if let Some(c) = self.clients.get_mut(id) {
                    c.noread = true;
                }
            }
            "!stall" => {
                // p = [[flooder connection]]
                let p = wire::groups(cmd);
                let fl = p.get(0).and_then(|g| g.get(0)).cloned().unwrap_or_default();
                if let Err(e) = self.stall(id, &fl).await {
                    issue = Some(format!("stall failed: {}", e));
                }
            }
            _ => {
                let line = wire::to_line(cmd);
                if let Err(e) = self.send_line(id, &line).await {
                    issue = Some(format!("send failed: {}", e));
                }
            }
        }
        if let Err(StepIssue::Watchdog(w)) = self.quiesce(wd).await {
            issue = Some(format!("watchdog: {}", w));
        }
        let outs = match self.collect(wd).await {
            Ok(o) => o,
            Err(StepIssue::Watchdog(w)) => {
                issue = Some(format!("watchdog(read): {}", w));
                vec![]
            }
        };
        (outs, issue)
    }
}

// TLS client side for the "TLS changes the transport only" runs (the repository's test certificate)
pub async fn tls_connect(stream: TcpStream) -> Result<tokio_rustls::client::TlsStream<TcpStream>, String> {
    use tokio_rustls::rustls::{self, Certificate};
    let mut certs: Vec<Certificate> = rustls_pemfile::certs(&mut std::io::BufReader::new(
        std::fs::File::open("/repo/test_data/cert.crt").map_err(|e| e.to_string())?,
    ))
    .map(|mut certs| certs.drain(..).map(Certificate).collect())
    .map_err(|e| e.to_string())?;
    let dnsname = rustls::client::ServerName::try_from("localhost").map_err(|e| e.to_string())?;
    let mut cert_store = rustls::RootCertStore { roots: vec![] };
    cert_store.add(&certs.remove(0)).map_err(|e| e.to_string())?;
    let config = Arc::new(
        rustls::ClientConfig::builder()
            .with_safe_defaults()
            .with_root_certificates(cert_store)
            .with_no_client_auth(),
    );
    tokio_rustls::TlsConnector::from(config)
        .connect(dnsname, stream)
        .await
        .map_err(|e| e.to_string())
}

pub fn runtime(workers: usize) -> tokio::runtime::Runtime {
    tokio::runtime::Builder::new_multi_thread()
        .worker_threads(workers)
        .enable_all()
        .build()
        .unwrap()
}

pub fn arg_val(args: &[String], name: &str) -> Option<String> {
    args.iter()
        .position(|a| a == name)
        .and_then(|i| args.get(i + 1))
        .cloned()
}
